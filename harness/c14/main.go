// Harness for C14: builds the REAL iterators of /repo/trait/seq from expression trees over a
// small alphabet of function codes (the same codes coq/theories/Iter/Model.v interprets),
// drains them with the documented loop (or seq.ForEach) and prints one JSON case per line.
//
//	VERIF_SEED   seed of the only PRNG
//	VERIF_TIER   quick | thorough
//	VERIF_CASES  file of JSON lines {"expr":..,"mode":..}: run exactly these (replay / shrinking)
package main

import (
	"bufio"
	"encoding/json"
	"fmt"
	"math/rand"
	"os"
	"strconv"
	"strings"

	"github.com/fogfish/golem/trait/seq"
)

type Pred struct {
	K  string `json:"k"` // lt | ne | par | true | false | mod (x mod c == r) | in (x is one of xs)
	C  int    `json:"c,omitempty"`
	R  int    `json:"r,omitempty"`
	Xs []int  `json:"xs,omitempty"`
}

type Mapc struct {
	K string `json:"k"` // aff | const
	A int    `json:"a,omitempty"`
	B int    `json:"b,omitempty"`
}

type Node struct {
	O  string `json:"o"` // from slice arg shift takew dropw filter map plus join joine when
	V  int    `json:"v,omitempty"`
	Xs []int  `json:"xs,omitempty"`
	P  *Pred  `json:"p,omitempty"`
	M  *Mapc  `json:"m,omitempty"`
	J  string `json:"j,omitempty"` // repl | range | nil
	S  *Node  `json:"s,omitempty"`
	L  *Node  `json:"l,omitempty"`
	R  *Node  `json:"r,omitempty"`
	B  *Node  `json:"b,omitempty"`

	buf []int // the slice handed to FromSlice (backing array owned by the harness)
}

type Mode struct {
	K string `json:"k"` // drain | pos | pred
	N int    `json:"n,omitempty"`
	P *Pred  `json:"p,omitempty"`
}

type Case struct {
	Expr  *Node    `json:"expr"`
	Mode  Mode     `json:"mode"`
	Obs   []int    `json:"obs"`
	Err   *int     `json:"err"`
	After [][]int  `json:"after"`
	Post  [][2]int `json:"post"` // Next() called again after it returned false: [-1,0] panic, [0,0] false, [1,v] true with Value v
	Panic bool     `json:"panic"`
	Why   string   `json:"why,omitempty"`
	Gen   string   `json:"gen,omitempty"`
}

func emod(x, m int) int { return ((x % m) + m) % m }

func pred(p *Pred) func(int) bool {
	switch p.K {
	case "lt":
		return func(x int) bool { return x < p.C }
	case "ne":
		return func(x int) bool { return x != p.C }
	case "par":
		return func(x int) bool { return emod(x, 2) == p.C }
	case "true":
		return func(int) bool { return true }
	case "false":
		return func(int) bool { return false }
	case "mod":
		if p.C <= 0 {
			panic("pred code mod: modulus must be positive")
		}
		return func(x int) bool { return emod(x, p.C) == p.R }
	case "in":
		return func(x int) bool {
			for _, y := range p.Xs {
				if x == y {
					return true
				}
			}
			return false
		}
	}
	panic("pred code " + p.K)
}

func mapc(m *Mapc) func(int) int {
	switch m.K {
	case "aff":
		return func(x int) int { return m.A*x + m.B }
	case "const":
		return func(int) int { return m.A }
	}
	panic("map code " + m.K)
}

func joinc(j string) func(int) seq.Seq[int] {
	switch j {
	case "repl":
		return func(x int) seq.Seq[int] {
			xs := []int{}
			for i := 0; i < emod(x, 3); i++ {
				xs = append(xs, x)
			}
			return seq.FromSlice(xs)
		}
	case "range":
		return func(x int) seq.Seq[int] {
			xs := []int{}
			for i := 0; i < emod(x, 4); i++ {
				xs = append(xs, x+i)
			}
			return seq.FromSlice(xs)
		}
	case "nil":
		return func(int) seq.Seq[int] { return nil }
	}
	panic("join code " + j)
}

const spareSentinel = -777777

// prepare gives every source slice its own backing array (with spare capacity, so that an
// append through an alias would also show)
func prepare(t *Node) {
	if t == nil {
		return
	}
	if t.O == "slice" {
		b := make([]int, len(t.Xs), len(t.Xs)+2)
		copy(b, t.Xs)
		// sentinels in the spare capacity behind the slice: writing through an alias (append) shows
		full := b[:cap(b)]
		for i := len(t.Xs); i < len(full); i++ {
			full[i] = spareSentinel
		}
		t.buf = b
	}
	prepare(t.S)
	prepare(t.L)
	prepare(t.R)
	prepare(t.B)
}

// pre-order, the same order as Model.sources
func sources(t *Node, acc *[][]int) {
	if t == nil {
		return
	}
	switch t.O {
	case "slice":
		c := make([]int, len(t.buf))
		copy(c, t.buf)
		// memory behind the slice (its spare capacity) belongs to the source too: if it was written, report it
		full := t.buf[:cap(t.buf)]
		for i := len(t.buf); i < len(full); i++ {
			if full[i] != spareSentinel {
				c = append(c, full[len(t.buf):]...)
				break
			}
		}
		*acc = append(*acc, c)
	case "plus":
		sources(t.L, acc)
		sources(t.R, acc)
	case "joine":
		sources(t.B, acc)
		sources(t.S, acc)
	default:
		sources(t.S, acc)
	}
}

// build calls the real constructors, children first; x is the argument of the innermost
// enclosing join function (0 at top level)
func build(t *Node, x int) seq.Seq[int] {
	work++
	switch t.O {
	case "from":
		return seq.From(t.V)
	case "slice":
		return seq.FromSlice(t.buf)
	case "arg":
		return seq.From(x)
	case "shift":
		ys := make([]int, len(t.Xs))
		for i, y := range t.Xs {
			ys[i] = x + y
		}
		return seq.FromSlice(ys)
	case "takew":
		return seq.TakeWhile(build(t.S, x), pred(t.P))
	case "dropw":
		return seq.DropWhile(build(t.S, x), pred(t.P))
	case "filter":
		return seq.Filter(build(t.S, x), pred(t.P))
	case "map":
		return seq.Map(build(t.S, x), mapc(t.M))
	case "plus":
		l := build(t.L, x)
		r := build(t.R, x)
		return seq.Plus(l, r)
	case "join":
		f := joinc(t.J)
		return seq.Join(build(t.S, x), func(a int) seq.Seq[int] { work++; return f(a) })
	case "joine":
		return seq.Join(build(t.S, x), func(a int) seq.Seq[int] { return build(t.B, a) })
	case "when":
		// the conditional body of a join function: nil for the arguments the guard rejects
		if !pred(t.P)(x) {
			return nil
		}
		return build(t.S, x)
	}
	panic("op " + t.O)
}

// limit: elements after which a run is declared non-terminating.  Random trees are cut off much earlier and
// then skipped (their evaluation inside Coq would be too deep): result longer than maxObs elements, or more
// than maxWork constructor calls (every call of a join function builds at least one iterator).
var limit = 200000

const maxObs = 1500
const maxWork = 4000

var work int // elements after which a run is declared non-terminating

type codeErr int

func (e codeErr) Error() string { return "E" + strconv.Itoa(int(e)) }

func again(it seq.Seq[int]) (o [2]int) {
	defer func() {
		if r := recover(); r != nil {
			o = [2]int{-1, 0}
		}
	}()
	if it.Next() {
		return [2]int{1, it.Value()}
	}
	return [2]int{0, 0}
}

func run(t *Node, m Mode) (c Case) {
	prepare(t)
	work = 0
	c.Expr, c.Mode, c.Obs, c.After, c.Post = t, m, []int{}, [][]int{}, [][2]int{}
	defer func() {
		if r := recover(); r != nil {
			c.Panic = true
			c.Why = fmt.Sprint(r)
			if len(c.Obs) > 200 {
				c.Obs = c.Obs[:200]
			}
		}
		c.After = [][]int{}
		sources(t, &c.After)
	}()
	it := build(t, 0)
	switch m.K {
	case "drain":
		// the documented loop
		for has := it != nil; has; has = it.Next() {
			c.Obs = append(c.Obs, it.Value())
			if len(c.Obs) > limit {
				panic("no end")
			}
		}
		// outside the documented protocol (compared with the model only, never by the property oracle):
		// what two more Next() calls answer
		for k := 0; k < 2 && it != nil; k++ {
			o := again(it)
			c.Post = append(c.Post, o)
			if o[0] < 0 {
				break
			}
		}
	default:
		calls := 0
		var f func(int) bool
		if m.K == "pred" {
			f = pred(m.P)
		}
		err := seq.ForEach(it, func(x int) error {
			c.Obs = append(c.Obs, x)
			k := calls
			calls++
			if len(c.Obs) > limit {
				panic("no end")
			}
			if m.K == "pos" && k == m.N {
				return codeErr(7000 + k)
			}
			if m.K == "pred" && f(x) {
				return codeErr(x)
			}
			return nil
		})
		if err != nil {
			// ForEach STOPS at the first error: the iterator still stands on the element that failed
			c.Post = append(c.Post, [2]int{2, it.Value()})
			if ce, ok := err.(codeErr); ok {
				v := int(ce)
				c.Err = &v
			} else {
				v := -1
				c.Err = &v
				c.Why = "foreign error " + err.Error()
			}
		}
	}
	return
}

// ------------------------------------------------------------------ alphabets

var preds = []*Pred{{K: "lt", C: 2}, {K: "lt", C: 4}, {K: "ne", C: 2}, {K: "par", C: 0}, {K: "par", C: 1}, {K: "true"}, {K: "false"}}
var maps = []*Mapc{{K: "aff", A: 2, B: 1}, {K: "aff", A: -1, B: 4}, {K: "const", A: 2}}
var joins = []string{"repl", "range", "nil"}

func sl(xs ...int) *Node { return &Node{O: "slice", Xs: xs} }
func sh(xs ...int) *Node { return &Node{O: "shift", Xs: xs} }

func leaves() []*Node {
	return []*Node{
		{O: "from", V: 2}, sl(), sl(3), sl(1, 4), sl(4, 1), sl(1, 2, 3), sl(2, 5, 2), sl(6, 3, 0),
		{O: "arg"}, sh(1, 2),
	}
}

// bodies of nested join functions used by the exhaustive part
func bodies() []*Node {
	return []*Node{
		{O: "arg"},
		sh(0, 1),
		sl(),
		{O: "filter", P: &Pred{K: "par", C: 0}, S: sh(0, 1, 2)},
		{O: "takew", P: &Pred{K: "lt", C: 3}, S: sh(0, 2)},
		{O: "plus", L: &Node{O: "arg"}, R: sl(9)},
		{O: "join", J: "repl", S: sh(1, 2)},
		{O: "dropw", P: &Pred{K: "lt", C: 3}, S: sh(0, 1)},
	}
}

// ------------------------------------------------------------------ join functions answering nil for SOME elements
//
// Join(outer, func(x) { if !guard(x) { return nil }; return <stopper> }): the body is an expression that STOPS
// EARLY - TakeWhile / DropWhile / Filter with a non-monotone predicate over a slice where the predicate fails in
// the middle and holds again later - and its neighbours (before, after, several in a row, at the end) are nil.

func md(m, r int) *Pred  { return &Pred{K: "mod", C: m, R: r} }
func in(xs ...int) *Pred { return &Pred{K: "in", Xs: xs} }

// which elements of an outer slice over 1..4 get a body; the others get nil
var guards = []*Pred{
	{K: "ne", C: 2},                    // nil between two bodies
	{K: "ne", C: 1},                    // nil first
	{K: "lt", C: 3},                    // nil for the last elements (several in a row, at the end)
	in(1, 4),                           // several nil in a row between two bodies
	in(3),                              // nil before (several in a row) and after
	in(4),                              // only the last element has a body
	{K: "par", C: 1}, {K: "par", C: 0}, // alternating
	md(3, 1),
	{K: "false"}, {K: "true"},
}

// non-monotone predicates
var holes = []*Pred{{K: "par", C: 0}, {K: "par", C: 1}, md(3, 1), md(3, 0), in(1, 2, 5, 6, 9)}

func inner() []*Node {
	return []*Node{sh(0, 2, 1, 4), sh(0, 1, 2, 3), sl(1, 3, 2, 5), sh(0, 3, -1, 6, 2)}
}

func un(o string, p *Pred, s *Node) *Node { return &Node{O: o, P: p, S: s} }
func plus(l, r *Node) *Node               { return &Node{O: "plus", L: l, R: r} }
func when(p *Pred, s *Node) *Node         { return &Node{O: "when", P: p, S: s} }
func joine(b, s *Node) *Node              { return &Node{O: "joine", B: b, S: s} }

func stoppers() []*Node {
	out := []*Node{}
	for _, src := range inner() {
		for _, o := range []string{"takew", "dropw", "filter"} {
			for _, p := range holes {
				out = append(out, un(o, p, src))
			}
		}
	}
	arg := &Node{O: "arg"}
	for _, src := range inner()[:2] {
		for _, p := range holes[:3] {
			base := un("takew", p, src)
			out = append(out,
				plus(base, arg), plus(arg, base), plus(base, un("filter", holes[3], sh(1, 3, 6))),
				&Node{O: "map", M: &Mapc{K: "aff", A: 1, B: 10}, S: base},
				un("takew", &Pred{K: "lt", C: 6}, base), un("filter", &Pred{K: "ne", C: 3}, base),
				un("dropw", holes[1], un("filter", p, src)),
				&Node{O: "join", J: "repl", S: base},
				joine(when(holes[1], sh(0, 1)), base),
				joine(when(&Pred{K: "ne", C: 3}, un("takew", p, sh(0, 2, 1))), sh(0, 1, 2)))
		}
	}
	return out
}

func nilJoins() []*Node {
	out := []*Node{}
	for _, outer := range []*Node{sl(1, 2, 3), sl(1, 2, 3, 4), sl(2, 1, 4, 3)} {
		for _, g := range guards {
			for _, b := range stoppers() {
				out = append(out, joine(when(g, b), outer))
			}
		}
	}
	return out
}

func clone(t *Node) *Node {
	if t == nil {
		return nil
	}
	c := *t
	c.buf = nil
	c.S, c.L, c.R, c.B = clone(t.S), clone(t.L), clone(t.R), clone(t.B)
	return &c
}

func unary(child *Node) []*Node {
	out := []*Node{}
	for _, o := range []string{"takew", "dropw", "filter"} {
		for _, p := range preds {
			out = append(out, &Node{O: o, P: p, S: child})
		}
	}
	for _, m := range maps {
		out = append(out, &Node{O: "map", M: m, S: child})
	}
	for _, j := range joins {
		out = append(out, &Node{O: "join", J: j, S: child})
	}
	for _, b := range bodies() {
		out = append(out, &Node{O: "joine", B: b, S: child})
	}
	return out
}

func depth(t *Node) int {
	if t == nil {
		return -1
	}
	d := depth(t.S)
	for _, c := range []*Node{t.L, t.R} {
		if dc := depth(c); dc > d {
			d = dc
		}
	}
	return d + 1
}

// ------------------------------------------------------------------ random trees

type gen struct {
	rng    *rand.Rand
	maxLen int
}

func (g *gen) val() int { return g.rng.Intn(13) - 3 }

func (g *gen) slice() []int {
	n := g.rng.Intn(g.maxLen + 1)
	xs := make([]int, n)
	for i := range xs {
		xs[i] = g.val()
	}
	return xs
}

// a predicate that may fail in the middle of a slice and hold again later
func (g *gen) hole() *Pred {
	switch g.rng.Intn(6) {
	case 0:
		return &Pred{K: "par", C: g.rng.Intn(2)}
	case 1, 2:
		m := 2 + g.rng.Intn(3)
		return md(m, g.rng.Intn(m))
	case 3, 4:
		xs := []int{}
		for v := -3; v < 14; v++ {
			if g.rng.Intn(2) == 0 {
				xs = append(xs, v)
			}
		}
		return in(xs...)
	}
	return &Pred{K: "ne", C: g.val()}
}

func (g *gen) pred() *Pred {
	if g.rng.Intn(4) == 0 {
		return g.hole()
	}
	switch g.rng.Intn(8) {
	case 0, 1:
		return &Pred{K: "lt", C: g.val()}
	case 2, 3:
		return &Pred{K: "ne", C: g.val()}
	case 4, 5:
		return &Pred{K: "par", C: g.rng.Intn(2)}
	case 6:
		return &Pred{K: "true"}
	}
	return &Pred{K: "false"}
}

func (g *gen) mapc() *Mapc {
	if g.rng.Intn(4) == 0 {
		return &Mapc{K: "const", A: g.val()}
	}
	return &Mapc{K: "aff", A: g.rng.Intn(5) - 2, B: g.val()}
}

// tree of depth exactly d (along at least one branch); inJoin allows the arg leaves
func (g *gen) tree(d int, inJoin bool) *Node {
	if d == 0 {
		switch k := g.rng.Intn(10); {
		case k < 1:
			return &Node{O: "from", V: g.val()}
		case k < 7 || !inJoin:
			return &Node{O: "slice", Xs: g.slice()}
		case k < 8:
			return &Node{O: "arg"}
		default:
			return &Node{O: "shift", Xs: g.slice()}
		}
	}
	switch k := g.rng.Intn(16); {
	case k < 2:
		return &Node{O: "takew", P: g.pred(), S: g.tree(d-1, inJoin)}
	case k < 4:
		return &Node{O: "dropw", P: g.pred(), S: g.tree(d-1, inJoin)}
	case k < 6:
		return &Node{O: "filter", P: g.pred(), S: g.tree(d-1, inJoin)}
	case k < 8:
		return &Node{O: "map", M: g.mapc(), S: g.tree(d-1, inJoin)}
	case k < 11:
		a, b := g.tree(d-1, inJoin), g.tree(g.rng.Intn(d), inJoin)
		if g.rng.Intn(2) == 0 {
			a, b = b, a
		}
		return &Node{O: "plus", L: a, R: b}
	case k < 13:
		return &Node{O: "join", J: joins[g.rng.Intn(3)], S: g.tree(d-1, inJoin)}
	default:
		// the body is kept shallow so that results stay small
		bd := g.rng.Intn(3)
		if bd > d-1 {
			bd = d - 1
		}
		b := g.tree(bd, true)
		if g.rng.Intn(2) == 0 {
			b = when(g.pred(), b)
		}
		return &Node{O: "joine", B: b, S: g.tree(d-1, inJoin)}
	}
}

// a slice of n..n+2 values
func (g *gen) sliceN(n int) []int {
	xs := make([]int, n+g.rng.Intn(3))
	for i := range xs {
		xs[i] = g.val()
	}
	return xs
}

// an expression over the join argument that stops early: TakeWhile / DropWhile / Filter with a non-monotone
// predicate over a slice of 3..5 elements, composed d times with further operators
func (g *gen) stopper(d int) *Node {
	if d == 0 {
		var src *Node
		if g.rng.Intn(3) == 0 {
			src = sl(g.sliceN(3)...)
		} else {
			src = sh(g.sliceN(3)...)
		}
		return un([]string{"takew", "takew", "dropw", "filter"}[g.rng.Intn(4)], g.hole(), src)
	}
	b := g.stopper(d - 1)
	switch g.rng.Intn(8) {
	case 0:
		return plus(b, g.tree(0, true))
	case 1:
		return plus(g.tree(0, true), b)
	case 2:
		return plus(b, g.stopper(0))
	case 3:
		return &Node{O: "map", M: g.mapc(), S: b}
	case 4:
		return un([]string{"takew", "dropw", "filter"}[g.rng.Intn(3)], g.pred(), b)
	case 5:
		return &Node{O: "join", J: joins[g.rng.Intn(2)], S: b}
	case 6:
		return joine(when(g.pred(), g.stopper(0)), b)
	}
	return when(g.pred(), b)
}

// Join(outer, x -> guard(x) ? stopper : nil), bare or inside a small context
func (g *gen) nilJoin() *Node {
	outer := sl(g.sliceN(2)...)
	var guard *Pred
	if g.rng.Intn(2) == 0 {
		guard = g.hole()
	} else {
		guard = g.pred()
	}
	t := joine(when(guard, g.stopper(g.rng.Intn(3))), outer)
	switch g.rng.Intn(8) {
	case 0:
		return plus(t, g.tree(0, false))
	case 1:
		return plus(g.tree(0, false), t)
	case 2:
		return un([]string{"takew", "dropw", "filter"}[g.rng.Intn(3)], g.pred(), t)
	case 3:
		return joine(when(g.pred(), g.stopper(0)), t)
	}
	return t
}

func (g *gen) mode(n int) Mode {
	switch g.rng.Intn(3) {
	case 0:
		return Mode{K: "pos", N: g.rng.Intn(n + 2)}
	case 1:
		return Mode{K: "pred", P: g.pred()}
	}
	return Mode{K: "drain"}
}

// ------------------------------------------------------------------ main

func main() {
	seed, _ := strconv.ParseInt(os.Getenv("VERIF_SEED"), 10, 64)
	thorough := os.Getenv("VERIF_TIER") == "thorough"
	w := bufio.NewWriterSize(os.Stdout, 1<<20)
	defer w.Flush()
	enc := json.NewEncoder(w)
	emit := func(t *Node, m Mode, tag string) int {
		c := run(clone(t), m)
		c.Gen = tag
		if strings.HasPrefix(tag, "rnd") && (c.Why == "no end" || len(c.Obs) > maxObs || work > maxWork) {
			return -1
		}
		if err := enc.Encode(c); err != nil {
			fmt.Fprintln(os.Stderr, err)
			os.Exit(2)
		}
		return len(c.Obs)
	}

	if p := os.Getenv("VERIF_CASES"); p != "" {
		f, err := os.Open(p)
		if err != nil {
			fmt.Fprintln(os.Stderr, err)
			os.Exit(2)
		}
		sc := bufio.NewScanner(f)
		sc.Buffer(make([]byte, 1<<20), 1<<26)
		for sc.Scan() {
			var c Case
			if err := json.Unmarshal(sc.Bytes(), &c); err != nil {
				fmt.Fprintln(os.Stderr, err)
				os.Exit(2)
			}
			emit(c.Expr, c.Mode, "replay")
		}
		return
	}

	rng := rand.New(rand.NewSource(seed))
	drain := Mode{K: "drain"}
	cbs := []Mode{{K: "pos", N: 0}, {K: "pos", N: 1}, {K: "pos", N: 2}, {K: "pos", N: 99},
		{K: "pred", P: &Pred{K: "par", C: 0}}, {K: "pred", P: &Pred{K: "lt", C: 3}}}

	// exhaustive: every tree of depth <= 1; depth 2: every unary operator over every depth-1 tree,
	// Plus of every depth-1 tree with every leaf on either side, and a sample of Plus(depth 1, depth 1)
	l0 := leaves()
	d1 := []*Node{}
	for _, c := range l0 {
		d1 = append(d1, unary(c)...)
	}
	for _, a := range l0 {
		for _, b := range l0 {
			d1 = append(d1, &Node{O: "plus", L: a, R: b})
		}
	}
	for _, t := range l0 {
		emit(t, drain, "exh0")
		for _, m := range cbs {
			emit(t, m, "exh0")
		}
	}
	for _, t := range d1 {
		emit(t, drain, "exh1")
		for _, m := range cbs {
			emit(t, m, "exh1")
		}
	}
	for _, c := range d1 {
		for _, t := range unary(c) {
			n := emit(t, drain, "exh2")
			if thorough || rng.Intn(8) == 0 {
				emit(t, cbs[rng.Intn(len(cbs))], "exh2")
				_ = n
			}
		}
		for _, b := range l0 {
			emit(&Node{O: "plus", L: c, R: b}, drain, "exh2")
			emit(&Node{O: "plus", L: b, R: c}, drain, "exh2")
		}
	}
	pairs := 3000
	if thorough {
		pairs = 40000
	}
	for i := 0; i < pairs; i++ {
		t := &Node{O: "plus", L: d1[rng.Intn(len(d1))], R: d1[rng.Intn(len(d1))]}
		emit(t, drain, "exh2s")
	}

	// join functions answering nil for some elements and an early-stopping expression for the others:
	// every (outer slice, guard, stopper) of the alphabet, a sample of them inside a further operator
	g := &gen{rng: rng, maxLen: 3}
	for _, t := range nilJoins() {
		emit(t, drain, "nilj")
		if thorough || rng.Intn(4) == 0 {
			emit(t, cbs[rng.Intn(len(cbs))], "nilj")
		}
		if thorough || rng.Intn(8) == 0 {
			us := unary(t)
			emit(us[rng.Intn(len(us))], drain, "nilj2")
			b := l0[rng.Intn(len(l0))]
			if rng.Intn(2) == 0 {
				emit(plus(t, b), drain, "nilj2")
			} else {
				emit(plus(b, t), drain, "nilj2")
			}
		}
	}
	nn := 3000
	if thorough {
		nn = 40000
	}
	limit = maxObs + 1
	for i := 0; i < nn; i++ {
		t := g.nilJoin()
		k := emit(t, drain, "rndnil")
		if k >= 0 && i%4 == 0 {
			emit(t, g.mode(k), "rndnil")
		}
	}

	// random trees, depth 3..6 (thorough: ..7, longer slices)
	n, maxd := 4000, 6
	if thorough {
		g.maxLen = 6
		n, maxd = 60000, 7
	}
	limit = maxObs + 1
	for i := 0; i < n; i++ {
		d := 3 + rng.Intn(maxd-2)
		t := g.tree(d, false)
		k := emit(t, drain, "rnd")
		if k < 0 {
			continue
		}
		if i%2 == 0 {
			emit(t, g.mode(k), "rnd")
		}
	}
}
