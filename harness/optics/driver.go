// Correspondence driver for C01..C04 (hseq unfolding, field lenses, derivation guards, combinators).
//
// The struct shapes, their unsafe.Offsetof chains and every generic instantiation are GENERATED Go
// source (tools/runner/props/optics_common.py -> shapes_gen.go, arity_gen.go); this file is the static
// part.  Everything random comes from one PRNG seeded by VERIF_SEED.  One JSON object per line on
// stdout: first the shape ({"kind":"shape",..}), then its cases ({"kind":"case","prop":"C03",..}).
// Panics of the code under test are recovered per request and recorded as an enum.
//
// Type identity is reported as a canonical name (canon): reflect's String() plus a suffix for every
// further type that prints the same.  The generated "homonym" shapes are declared inside their init
// function behind local types that shadow package-level ones (`type MyInt string` vs the package-level
// `type MyInt int64`: same String(), Name() and PkgPath(), distinct types); they announce those local
// types with declareType, so `main.MyInt` is the package-level type and `main.MyInt#K8` the one of shape K8.
package main

import (
	"bufio"
	"encoding/json"
	"fmt"
	"math/rand"
	"os"
	"reflect"
	"regexp"
	"runtime/debug"
	"strconv"
	"strings"
	"unsafe"

	"github.com/fogfish/golem/hseq"
)

const (
	preGuard  = 64
	postGuard = 512
)

//------------------------------------------------------------------------------
// what the generated source registers
//------------------------------------------------------------------------------

type pathOff struct {
	Path []int
	Off  uintptr                               // unsafe.Offsetof chain written in source
	Addr func(s unsafe.Pointer) unsafe.Pointer // address of the same selector taken on an instance
}

type forTypeDef struct {
	A  reflect.Type
	Fn func() entryObs
}

type newNDef struct {
	Tys []reflect.Type
	Fn  func() []entryObs
}

type deriver struct {
	Via string // product | spectrum | shape
	Ptr bool   // container type parameter is *T
	Tys []reflect.Type
	Fn  func(attr ...string) []any
}

type shapeDef struct {
	ID     string
	T      reflect.Type
	NewW   func() (w unsafe.Pointer, s unsafe.Pointer, size uintptr)
	Offs   []pathOff
	Seq    func(ptr bool, names ...string) []entryObs
	Maybe  func(name string) (entryObs, bool)
	Name   func(name string) entryObs
	FMap   func(names ...string) []int
	FMapN  []func(names ...string) [][2]int
	ForTy  []forTypeDef
	NewN   []newNDef
	Derive []deriver
	Combos []combo // C04, see combos.go
}

var shapes []*shapeDef

//------------------------------------------------------------------------------
// type descriptors
//------------------------------------------------------------------------------

var nameRegistry = map[string][]reflect.Type{}
var declared = map[reflect.Type]string{}

// declareType fixes the canonical name of a type before anything asks for it.  The generated source
// declares the package-level named types first (label "": plain String()), then every function-local
// type of a homonym shape (label = shape id: String() + "#" + id), so that the canonical names do not
// depend on which other shapes take part in the run (a replay runs one shape only).
func declareType(t reflect.Type, label string) {
	if label == "" {
		if s := canon(t); s != t.String() {
			panic("harness: " + s + " declared after a type that prints alike")
		}
		return
	}
	declared[t] = t.String() + "#" + label
}

// printsAs: what reflect's String() gives for the type of this canonical name
var canonSuffix = regexp.MustCompile(`#[A-Za-z0-9]+`)

func printsAs(canonical string) string { return canonSuffix.ReplaceAllString(canonical, "") }

// canonical name: reflect's String(), made unique per type identity
func canon(t reflect.Type) string {
	if t == nil {
		return "<nil>"
	}
	if t.Kind() == reflect.Pointer {
		return "*" + canon(t.Elem())
	}
	if s, ok := declared[t]; ok {
		return s
	}
	s := t.String()
	l := nameRegistry[s]
	for i, u := range l {
		if u == t {
			if i == 0 {
				return s
			}
			return s + "#" + strconv.Itoa(i)
		}
	}
	nameRegistry[s] = append(l, t)
	if len(l) == 0 {
		return s
	}
	return s + "#" + strconv.Itoa(len(l))
}

type tdesc struct {
	K string  `json:"k"`
	N string  `json:"n,omitempty"`
	S uintptr `json:"s"`
	A int     `json:"a"`
	E *tdesc  `json:"e,omitempty"`
	F []fdesc `json:"f,omitempty"`
}

type fdesc struct {
	N  string  `json:"n"`
	T  string  `json:"t"`
	A  bool    `json:"a"`
	O  uintptr `json:"o"`
	Ty *tdesc  `json:"ty"`
}

func describe(t reflect.Type) *tdesc {
	switch t.Kind() {
	case reflect.Bool, reflect.Int, reflect.Int8, reflect.Int16, reflect.Int32, reflect.Int64,
		reflect.Uint, reflect.Uint8, reflect.Uint16, reflect.Uint32, reflect.Uint64, reflect.Uintptr,
		reflect.Float32, reflect.Float64, reflect.Complex64, reflect.Complex128:
		return &tdesc{K: "prim", N: canon(t), S: t.Size(), A: t.Align()}
	case reflect.Pointer:
		return &tdesc{K: "ptr", S: t.Size(), A: t.Align(), E: describe(t.Elem())}
	case reflect.Struct:
		d := &tdesc{K: "struct", N: canon(t), S: t.Size(), A: t.Align(), F: []fdesc{}}
		for i := 0; i < t.NumField(); i++ {
			f := t.Field(i)
			d.F = append(d.F, fdesc{N: f.Name, T: f.Tag.Get("hseq"), A: f.Anonymous, O: f.Offset, Ty: describe(f.Type)})
		}
		return d
	default:
		return &tdesc{K: "opaque", N: canon(t), S: t.Size(), A: t.Align()}
	}
}

//------------------------------------------------------------------------------
// hseq observations
//------------------------------------------------------------------------------

type entryObs struct {
	Name string  `json:"name"`
	Key  string  `json:"key"`
	Type string  `json:"type"`
	Off  uintptr `json:"off"`
	Root uintptr `json:"root"`
	ID   int     `json:"id"`
	Anon bool    `json:"anon"`
	Pure string  `json:"pure"`
}

func obsEntry[T any](t hseq.Type[T]) entryObs {
	return entryObs{Name: t.Name, Key: t.FieldKey(), Type: canon(t.Type), Off: t.Offset, Root: t.RootOffs,
		ID: t.ID, Anon: t.Anonymous, Pure: canon(t.PureType)}
}

func obsSeq[T any](s hseq.Seq[T]) []entryObs {
	r := make([]entryObs, 0, len(s))
	for _, t := range s {
		r = append(r, obsEntry(t))
	}
	// the listing belongs to the caller: once observed it is rearranged and overwritten in place (and its spare
	// capacity written), so an unfolding that hands out shared memory shows in every later listing of the type
	for i, j := 0, len(s)-1; i < j; i, j = i+1, j-1 {
		s[i], s[j] = s[j], s[i]
	}
	if len(s) > 0 {
		var zero hseq.Type[T]
		s[0] = zero
		if full := s[:cap(s)]; len(full) > len(s) {
			full[len(s)] = zero
		}
	}
	return r
}

func seqFn[T any](ptr bool, names ...string) []entryObs {
	if ptr {
		return obsSeq(hseq.New[*T](names...))
	}
	return obsSeq(hseq.New[T](names...))
}

func maybeFn[T any](name string) (entryObs, bool) {
	t, ok := hseq.ForNameMaybe(hseq.New[T](), name)
	if !ok {
		return entryObs{}, false
	}
	return obsEntry(t), true
}

func nameFn[T any](name string) entryObs { return obsEntry(hseq.ForName(hseq.New[T](), name)) }

func forTypeFn[A, T any]() entryObs { return obsEntry(hseq.ForType[A](hseq.New[T]())) }

func fmapFn[T any](names ...string) []int {
	return hseq.FMap(hseq.New[T](names...), func(t hseq.Type[T]) int { return t.ID })
}

func tag[T any](i int) func(hseq.Type[T]) [2]int {
	return func(t hseq.Type[T]) [2]int { return [2]int{i, t.ID} }
}

func tyOf[A any]() reflect.Type { return reflect.TypeOf((*A)(nil)).Elem() }

//------------------------------------------------------------------------------
// output
//------------------------------------------------------------------------------

var out *bufio.Writer

func emit(v any) {
	b, err := json.Marshal(v)
	if err != nil {
		panic(err)
	}
	out.Write(b)
	out.WriteByte('\n')
}

type obj = map[string]any

// try runs f, mapping a panic of the code under test to (nil, true)
func try(f func() any) (res any, panicked bool) {
	defer func() {
		if r := recover(); r != nil {
			res, panicked = nil, true
		}
	}()
	return f(), false
}

func bytesAt(p unsafe.Pointer, n uintptr) []int {
	b := unsafe.Slice((*byte)(p), n)
	r := make([]int, n)
	for i, x := range b {
		r[i] = int(x)
	}
	return r
}

//------------------------------------------------------------------------------
// typed random values
//------------------------------------------------------------------------------

var rng *rand.Rand

var words = []string{"", "a", "golem", "hseq", "optics", "lens", "x y", "Zürich", "0123456789abcdef0123456789"}
var keep []any // everything the arenas may point to stays reachable

func fillValue(v reflect.Value, depth int) {
	t := v.Type()
	switch t.Kind() {
	case reflect.Bool:
		v.SetBool(rng.Intn(2) == 1)
	case reflect.Int, reflect.Int8, reflect.Int16, reflect.Int32, reflect.Int64:
		if valueBits > 0 {
			v.SetInt(narrowInt(valueBits))
			return
		}
		v.SetInt(int64(rng.Uint64()))
	case reflect.Uint, reflect.Uint8, reflect.Uint16, reflect.Uint32, reflect.Uint64, reflect.Uintptr:
		v.SetUint(rng.Uint64())
	case reflect.Float32, reflect.Float64:
		v.SetFloat(float64(rng.Intn(1<<20)) / 8)
	case reflect.Complex64, reflect.Complex128:
		v.SetComplex(complex(float64(rng.Intn(1000)), float64(rng.Intn(1000))))
	case reflect.String:
		v.SetString(words[rng.Intn(len(words))])
	case reflect.Slice:
		if rng.Intn(5) == 0 {
			v.Set(reflect.Zero(t))
			return
		}
		n := rng.Intn(4)
		s := reflect.MakeSlice(t, n, n+rng.Intn(3))
		for i := 0; i < n; i++ {
			fillValue(s.Index(i), depth+1)
		}
		keep = append(keep, s.Interface())
		v.Set(s)
	case reflect.Array:
		for i := 0; i < t.Len(); i++ {
			fillValue(v.Index(i), depth+1)
		}
	case reflect.Pointer:
		if rng.Intn(4) == 0 || depth > 3 {
			v.Set(reflect.Zero(t))
			return
		}
		p := reflect.New(t.Elem())
		fillValue(p.Elem(), depth+1)
		keep = append(keep, p.Interface())
		v.Set(p)
	case reflect.Interface:
		switch rng.Intn(4) {
		case 0:
			v.Set(reflect.Zero(t))
		case 1:
			if t.NumMethod() == 0 {
				v.Set(reflect.ValueOf(rng.Intn(1000)))
			}
		case 2:
			if t.NumMethod() == 0 {
				v.Set(reflect.ValueOf(words[rng.Intn(len(words))]))
			}
		default:
			if t.NumMethod() == 0 {
				v.Set(reflect.ValueOf(rng.Float64()))
			}
		}
	case reflect.Map:
		if rng.Intn(3) == 0 {
			v.Set(reflect.Zero(t))
			return
		}
		m := reflect.MakeMap(t)
		keep = append(keep, m.Interface())
		v.Set(m)
	case reflect.Chan:
		if rng.Intn(3) == 0 || t.ChanDir() != reflect.BothDir {
			v.Set(reflect.Zero(t))
			return
		}
		c := reflect.MakeChan(t, 1)
		keep = append(keep, c.Interface())
		v.Set(c)
	case reflect.Struct:
		base := v.Addr().UnsafePointer()
		for i := 0; i < t.NumField(); i++ {
			f := t.Field(i)
			fillValue(reflect.NewAt(f.Type, unsafe.Add(base, f.Offset)).Elem(), depth+1)
		}
	case reflect.Func, reflect.UnsafePointer:
		v.Set(reflect.Zero(t))
	}
}

// valueBits > 0: signed integers are drawn from the range of a signed integer type of that many bits (C04: the values
// put through a BiMapI lens across widths are those of the narrower type)
var valueBits int

// narrowInt: a value of the signed integer type of `bits` bits: the corners and -1, 0 now and then, else uniform
func narrowInt(bits int) int64 {
	lo := -(int64(1) << (bits - 1))
	switch rng.Intn(8) {
	case 0:
		return []int64{lo, -lo - 1, -1, 0, lo + 1, 1}[rng.Intn(6)]
	default:
		return int64(rng.Uint64()) >> (64 - bits) // arithmetic shift: sign extended
	}
}

// valueBytes: the memory image of a value of type t
func valueBytes(v reflect.Value) []int {
	p := reflect.New(v.Type())
	p.Elem().Set(v)
	return bytesAt(p.UnsafePointer(), v.Type().Size())
}

func newValue(t reflect.Type) reflect.Value {
	p := reflect.New(t)
	fillValue(p.Elem(), 0)
	keep = append(keep, p.Interface())
	return p.Elem()
}

//------------------------------------------------------------------------------
// arenas: guard | struct | guard, with a byte template per shape
//------------------------------------------------------------------------------

type arena struct {
	sd       *shapeDef
	template []byte
	base     uintptr
	size     uintptr
}

func newArena(sd *shapeDef) *arena {
	w, s, size := sd.NewW()
	a := &arena{sd: sd, base: uintptr(s) - uintptr(w), size: size}
	b := unsafe.Slice((*byte)(w), size)
	for i := range b {
		b[i] = byte(0xA0 + i%23) // guards and padding holes carry a pattern
	}
	for i := a.base; i < a.base+sd.T.Size(); i++ {
		b[i] = byte(0xC1 + i%29)
	}
	fillValue(reflect.NewAt(sd.T, s).Elem(), 0)
	a.template = append([]byte(nil), b...)
	keep = append(keep, w)
	return a
}

// instance: a fresh arena holding a copy of the template
func (a *arena) instance() (w, s unsafe.Pointer) {
	w, s, _ = a.sd.NewW()
	copy(unsafe.Slice((*byte)(w), a.size), a.template)
	keep = append(keep, w)
	return w, s
}

func diff(a []byte, w unsafe.Pointer) [][2]int {
	b := unsafe.Slice((*byte)(w), len(a))
	d := [][2]int{}
	for i := range a {
		if a[i] != b[i] {
			d = append(d, [2]int{i, int(b[i])})
		}
	}
	return d
}

func ints(b []byte) []int {
	r := make([]int, len(b))
	for i, x := range b {
		r[i] = int(x)
	}
	return r
}

//------------------------------------------------------------------------------
// one shape
//------------------------------------------------------------------------------

func typeNames(ts []reflect.Type) []*tdesc {
	r := []*tdesc{}
	for _, t := range ts {
		r = append(r, describe(t))
	}
	return r
}

func pick[X any](l []X) X { return l[rng.Intn(len(l))] }

func runShape(sd *shapeDef, props map[string]bool, tier string) {
	ar := newArena(sd)
	listing, lp := try(func() any { return sd.Seq(false) })
	offs := []obj{}
	_, s0 := ar.instance()
	for _, po := range sd.Offs {
		offs = append(offs, obj{"path": po.Path, "off": po.Off, "addr": uintptr(po.Addr(s0)) - uintptr(s0)})
	}
	sh := obj{"kind": "shape", "id": sd.ID, "ty": describe(sd.T), "offs": offs, "base": ar.base,
		"before": ints(ar.template), "listing": listing, "listing_panic": lp}
	emit(sh)
	var L []entryObs
	if !lp {
		L = listing.([]entryObs)
	}
	if props["C03"] {
		runC03(sd, L)
	}
	if props["C01"] || props["C02"] {
		runDerive(sd, ar, L, props)
	}
	if props["C04"] {
		runC04(sd, ar, L)
	}
}

func c(prop, shape string, req obj, obs obj) {
	emit(obj{"kind": "case", "prop": prop, "shape": shape, "req": req, "obs": obs})
}

func entriesObs(r any, p bool) obj {
	if p {
		return obj{"panic": true}
	}
	return obj{"panic": false, "entries": r}
}

// names worth asking for: every key, every raw field name, whole tags, and misses
func nameUniverse(sd *shapeDef, L []entryObs) []string {
	seen := map[string]bool{}
	var u []string
	add := func(s string) {
		if !seen[s] {
			seen[s] = true
			u = append(u, s)
		}
	}
	for _, e := range L {
		add(e.Key)
	}
	for _, e := range L {
		add(e.Name)
	}
	var walk func(t reflect.Type, d int)
	walk = func(t reflect.Type, d int) {
		if t.Kind() == reflect.Pointer {
			t = t.Elem()
		}
		if t.Kind() != reflect.Struct || d > 6 {
			return
		}
		for i := 0; i < t.NumField(); i++ {
			if tg := t.Field(i).Tag.Get("hseq"); tg != "" {
				add(tg)
			}
			walk(t.Field(i).Type, d+1)
		}
	}
	walk(sd.T, 0)
	add("nope")
	add("")
	add("Nope,opt")
	return u
}

func randNames(u []string, keys []string, n int, hostile bool) []string {
	r := make([]string, n)
	for i := range r {
		if hostile && rng.Intn(4) == 0 || len(keys) == 0 {
			r[i] = pick(u)
		} else {
			r[i] = pick(keys)
		}
	}
	return r
}

func keysOf(L []entryObs) []string {
	var k []string
	for _, e := range L {
		k = append(k, e.Key)
	}
	return k
}

func runC03(sd *shapeDef, L []entryObs) {
	for _, ptr := range []bool{false, true} {
		r, p := try(func() any { return sd.Seq(ptr) })
		c("C03", sd.ID, obj{"q": "listing", "ptr": ptr}, entriesObs(r, p))
	}
	u := nameUniverse(sd, L)
	keys := keysOf(L)
	for _, n := range u {
		r, p := try(func() any { return []entryObs{sd.Name(n)} })
		c("C03", sd.ID, obj{"q": "forname", "name": n}, entriesObs(r, p))
		var found bool
		r, p = try(func() any { e, ok := sd.Maybe(n); found = ok; return []entryObs{e} })
		o := entriesObs(r, p)
		o["found"] = found
		c("C03", sd.ID, obj{"q": "maybe", "name": n}, o)
	}
	for k := 0; k < 6; k++ {
		ns := randNames(u, keys, 1+rng.Intn(5), k%2 == 1)
		ptr := k == 4
		r, p := try(func() any { return sd.Seq(ptr, ns...) })
		c("C03", sd.ID, obj{"q": "names", "ptr": ptr, "names": ns}, entriesObs(r, p))
	}
	for _, ft := range sd.ForTy {
		r, p := try(func() any { return []entryObs{ft.Fn()} })
		c("C03", sd.ID, obj{"q": "fortype", "tys": typeNames([]reflect.Type{ft.A})}, entriesObs(r, p))
	}
	for _, nn := range sd.NewN {
		r, p := try(func() any { return nn.Fn() })
		c("C03", sd.ID, obj{"q": "newn", "tys": typeNames(nn.Tys)}, entriesObs(r, p))
	}
	for k := 0; k < 3; k++ {
		var ns []string
		if k > 0 {
			ns = randNames(u, keys, 1+rng.Intn(4), k == 2)
		} else {
			ns = []string{}
		}
		r, p := try(func() any { return sd.FMap(ns...) })
		c("C03", sd.ID, obj{"q": "fmap", "names": ns}, obj{"panic": p, "ids": r})
	}
	for n := 1; n <= len(sd.FMapN); n++ {
		for k := 0; k < 3; k++ {
			// the whole listing, exactly n names, or one name too few
			var ns []string
			switch k {
			case 0:
				ns = []string{}
			case 1:
				ns = randNames(u, keys, n, false)
			default:
				ns = randNames(u, keys, n-1, false)
				if n == 1 {
					continue
				}
			}
			r, p := try(func() any { return sd.FMapN[n-1](ns...) })
			c("C03", sd.ID, obj{"q": "fmapn", "n": n, "names": ns}, obj{"panic": p, "tagged": r})
		}
	}
}

//------------------------------------------------------------------------------
// C01 / C02: derivations and what the derived optics do to memory
//------------------------------------------------------------------------------

type lensObs struct {
	I    int      `json:"i"`
	Get0 []int    `json:"get0"`
	P0   bool     `json:"p0"`
	V    []int    `json:"v"`
	PPut bool     `json:"pput"`
	Same bool     `json:"same"`
	Diff [][2]int `json:"diff"`
	Get1 []int    `json:"get1"`
	P1   bool     `json:"p1"`
	Dyn  []dynObs `json:"dyn,omitempty"`
}

type dynObs struct {
	Arg     string `json:"arg"` // val | other | nil | typednil | slice | ptrptr
	Put     bool   `json:"put"`
	Panic   bool   `json:"panic"`
	Changed bool   `json:"changed"`
}

func callMethod(l any, name string, args ...reflect.Value) (res reflect.Value, panicked bool) {
	defer func() {
		if r := recover(); r != nil {
			panicked = true
		}
	}()
	m := reflect.ValueOf(l).MethodByName(name)
	if !m.IsValid() {
		panic("harness: optic without method " + name)
	}
	o := m.Call(args)
	if len(o) > 0 {
		return o[0], false
	}
	return reflect.Value{}, false
}

// observeLens exercises one derived optic (Lens: Get/Put, Reflector: Gett/Putt) of focus type A
func observeLens(sd *shapeDef, ar *arena, l any, i int, A reflect.Type, spectrum bool, withDyn bool) lensObs {
	o := lensObs{I: i, Diff: [][2]int{}}
	get, put := "Get", "Put"
	if spectrum {
		get, put = "Gett", "Putt"
	}
	w, s := ar.instance()
	sp := reflect.NewAt(sd.T, s) // *S
	g0, p0 := callMethod(l, get, sp)
	o.P0 = p0
	if !p0 {
		o.Get0 = valueBytes(g0)
	}
	v := newValue(A)
	o.V = valueBytes(v)
	ret, pp := callMethod(l, put, sp, v)
	o.PPut = pp
	if !pp {
		if spectrum {
			if ret.Kind() == reflect.Interface && !ret.IsNil() {
				e := ret.Elem()
				o.Same = e.Kind() == reflect.Pointer && e.Type() == sp.Type() && e.UnsafePointer() == s
			}
		} else {
			o.Same = ret.Kind() == reflect.Pointer && ret.UnsafePointer() == s
		}
	}
	o.Diff = diff(ar.template, w)
	g1, p1 := callMethod(l, get, sp)
	o.P1 = p1
	if !p1 {
		o.Get1 = valueBytes(g1)
	}
	if spectrum && withDyn && i == 0 {
		for _, arg := range []string{"val", "other", "nil", "typednil", "slice", "ptrptr"} {
			for _, isPut := range []bool{false, true} {
				w2, s2 := ar.instance()
				var a reflect.Value
				switch arg {
				case "val":
					a = reflect.NewAt(sd.T, s2).Elem()
				case "other":
					a = reflect.NewAt(reflect.TypeOf(other{}), s2)
				case "nil":
					a = reflect.Zero(reflect.TypeOf((*any)(nil)).Elem())
				case "slice":
					// []S whose only element is the container in the arena: its element type is S, it is not *S
					a = reflect.NewAt(reflect.ArrayOf(1, sd.T), s2).Elem().Slice(0, 1)
				case "ptrptr":
					pp := reflect.New(reflect.PointerTo(sd.T))
					pp.Elem().Set(reflect.NewAt(sd.T, s2))
					a = pp
				default:
					a = reflect.Zero(reflect.PointerTo(sd.T))
				}
				var p bool
				if isPut {
					_, p = callMethod(l, put, a, newValue(A))
				} else {
					_, p = callMethod(l, get, a)
				}
				o.Dyn = append(o.Dyn, dynObs{Arg: arg, Put: isPut, Panic: p, Changed: len(diff(ar.template, w2)) > 0})
			}
		}
	}
	return o
}

type other struct{ A, B, C, D [64]byte }

func runDerivation(sd *shapeDef, ar *arena, prop string, d *deriver, attr []string, spare []string, withDyn bool) {
	var ls []any
	// the variadic slice has exactly the capacity of its length, unless spare names are asked for:
	// then they sit behind its end, inside its capacity (what `names[:k]...` of a longer slice gives)
	arg := make([]string, len(attr), len(attr)+len(spare))
	copy(arg, attr)
	copy(arg[len(attr):cap(arg)], spare)
	_, p := try(func() any { ls = d.Fn(arg...); return nil })
	req := obj{"via": d.Via, "ptr": d.Ptr, "tys": typeNames(d.Tys), "attr": attr, "spare": spare}
	if p {
		c(prop, sd.ID, req, obj{"panic": true})
		return
	}
	obs := []lensObs{}
	if !d.Ptr {
		// a lens whose container is *T is never exercised: it would write around a pointer variable
		if d.Via == "shape" {
			obs = observeShape(sd, ar, ls[0], d.Tys)
		} else {
			for i, l := range ls {
				obs = append(obs, observeLens(sd, ar, l, i, d.Tys[i], d.Via == "spectrum", withDyn))
			}
		}
	}
	c(prop, sd.ID, req, obj{"panic": false, "lenses": obs})
}

// observeShape: a LensN value: Put(s, a1..aN) then Get(s) = (a1..aN); reported as one observation per component
func observeShape(sd *shapeDef, ar *arena, l any, tys []reflect.Type) []lensObs {
	w, s := ar.instance()
	sp := reflect.NewAt(sd.T, s)
	obs := make([]lensObs, len(tys))
	m := reflect.ValueOf(l)
	var g0 []reflect.Value
	p0 := func() (p bool) {
		defer func() {
			if recover() != nil {
				p = true
			}
		}()
		g0 = m.MethodByName("Get").Call([]reflect.Value{sp})
		return
	}()
	args := []reflect.Value{sp}
	for i, t := range tys {
		v := newValue(t)
		args = append(args, v)
		obs[i] = lensObs{I: i, V: valueBytes(v), P0: p0, Diff: [][2]int{}}
		if !p0 {
			obs[i].Get0 = valueBytes(g0[i])
		}
	}
	var ret []reflect.Value
	pp := func() (p bool) {
		defer func() {
			if recover() != nil {
				p = true
			}
		}()
		ret = m.MethodByName("Put").Call(args)
		return
	}()
	d := diff(ar.template, w)
	var g1 []reflect.Value
	p1 := func() (p bool) {
		defer func() {
			if recover() != nil {
				p = true
			}
		}()
		g1 = m.MethodByName("Get").Call([]reflect.Value{sp})
		return
	}()
	for i := range tys {
		obs[i].PPut, obs[i].P1 = pp, p1
		if !pp {
			obs[i].Same = ret[0].UnsafePointer() == s
		}
		if i == 0 {
			obs[i].Diff = d // the whole Put is one write; its footprint is reported once
		}
		if !p1 {
			obs[i].Get1 = valueBytes(g1[i])
		}
	}
	return obs
}

// attribute lists for a deriver: by type, by the right names, and hostile variants
func attrsFor(sd *shapeDef, d *deriver, L []entryObs, u []string, hostile bool) [][]string {
	n := len(d.Tys)
	res := [][]string{{}}
	// names of entries whose type matches, position by position
	var right []string
	ok := true
	for _, t := range d.Tys {
		var cands []string
		for _, e := range L {
			if e.Type == canon(t) {
				cands = append(cands, e.Key)
			}
		}
		if len(cands) == 0 {
			ok = false
			break
		}
		right = append(right, pick(cands))
	}
	if ok {
		res = append(res, right)
		if hostile {
			if rng.Intn(2) == 0 {
				res = append(res, append(append([]string{}, right...), "extra", "nope")) // more names than needed
			}
			if n > 1 {
				res = append(res, right[:n-1]) // too few names
			}
		}
	}
	if hostile {
		res = append(res, randNames(u, keysOf(L), n, true))
		// homonym shapes: at some position the name of a field whose type is another one that PRINTS like the requested type
		var alike []string
		namesake := false
		for _, t := range d.Tys {
			var other, all []string
			for _, e := range L {
				if printsAs(e.Type) == t.String() {
					all = append(all, e.Key)
					if e.Type != canon(t) {
						other = append(other, e.Key)
					}
				}
			}
			switch {
			case len(other) > 0 && (!namesake || rng.Intn(2) == 0):
				alike = append(alike, pick(other))
				namesake = true
			case len(all) > 0:
				alike = append(alike, all[0])
			default:
				alike = append(alike, "nope")
			}
		}
		if namesake && n > 1 {
			res = append(res, alike)
		}
	}
	return res
}

func runDerive(sd *shapeDef, ar *arena, L []entryObs, props map[string]bool) {
	u := nameUniverse(sd, L)
	for i := range sd.Derive {
		d := &sd.Derive[i]
		if props["C01"] && !d.Ptr {
			for _, attr := range attrsFor(sd, d, L, u, false) {
				runDerivation(sd, ar, "C01", d, attr, []string{}, false)
			}
		}
		if props["C02"] {
			as := attrsFor(sd, d, L, u, true)
			n := len(d.Tys)
			if n == 1 {
				// the request matrix: this focus type against the keys of the fields of that type,
				// some other keys, and names from the universe (raw names, whole tags, misses)
				same := 0
				for _, e := range L {
					if e.Type == canon(d.Tys[0]) && same < 3 || rng.Intn(16) == 0 {
						as = append(as, []string{e.Key})
						same++
					}
				}
				// the fields whose type is another one that PRINTS like the focus type (homonym shapes)
				alike := 0
				for _, e := range L {
					if e.Type != canon(d.Tys[0]) && printsAs(e.Type) == d.Tys[0].String() && alike < 3 {
						as = append(as, []string{e.Key})
						alike++
					}
				}
				as = append(as, []string{pick(u)})
			}
			for _, attr := range as {
				runDerivation(sd, ar, "C02", d, attr, []string{}, true)
			}
			// too few names in front of spare capacity that holds the missing ones
			if n > 1 && !d.Ptr {
				for _, attr := range as {
					if len(attr) == n {
						k := 1 + rng.Intn(n-1)
						runDerivation(sd, ar, "C02", d, attr[:k], attr[k:], false)
						break
					}
				}
			}
		}
	}
}

//------------------------------------------------------------------------------
// main
//------------------------------------------------------------------------------

func main() {
	debug.SetGCPercent(-1) // arenas are filled bytewise: never let the collector look at them
	seed, _ := strconv.ParseInt(os.Getenv("VERIF_SEED"), 10, 64)
	if seed == 0 {
		seed = 1
	}
	rng = rand.New(rand.NewSource(seed))
	tier := os.Getenv("VERIF_TIER")
	props := map[string]bool{}
	for _, p := range strings.Split(os.Getenv("VERIF_PROPS"), ",") {
		if p != "" {
			props[p] = true
		}
	}
	if len(props) == 0 {
		fmt.Fprintln(os.Stderr, "VERIF_PROPS not set")
		os.Exit(2)
	}
	out = bufio.NewWriterSize(os.Stdout, 1<<20)
	defer out.Flush()
	for _, sd := range shapes {
		runShape(sd, props, tier)
	}
}
