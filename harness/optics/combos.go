package main

// C04: composed optics (Join, BiMap, Getter, Setter, ShapeN, NewLensM, Iso, Morphism).
// The instantiations are generated per shape (shapes_gen.go registers them as combos).

type combo struct {
	Kind string
	Run  func(sd *shapeDef, ar *arena) obj
	Req  obj
}

func runC04(sd *shapeDef, ar *arena, L []entryObs) {
	for i := range sd.Combos {
		cb := &sd.Combos[i]
		var o obj
		_, p := try(func() any { o = cb.Run(sd, ar); return nil })
		if p {
			o = obj{"panic": true}
		}
		req := obj{"combo": cb.Kind}
		for k, v := range cb.Req {
			req[k] = v
		}
		c("C04", sd.ID, req, o)
	}
}
