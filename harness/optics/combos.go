package main

// C04: composed optics (Join, BiMap, BiMapS/B/I/F, Getter, Setter, NewLensM, Iso, Morphism).
// The typed constructions are generated per shape (shapes_gen.go: combos<T>()); this file is the static part.

import (
	"reflect"
	"sort"
	"unsafe"

	"github.com/fogfish/golem/optics"
)

type combo struct {
	Kind string
	Req  obj
	Tys  map[string]reflect.Type // type text -> type, for the descriptors of the request
	Run  func(sd *shapeDef, ar *arena) obj
}

// xorBytes: the involution "every byte xor 0x5a" on a pointer-free fixed-size value
func xorBytes[A any](a A) A {
	b := unsafe.Slice((*byte)(unsafe.Pointer(&a)), unsafe.Sizeof(a))
	for i := range b {
		b[i] ^= 0x5a
	}
	return a
}

// ident: the identity as a conversion (BiMap over it is a lens that is not a field lens and focuses the same bytes)
func ident[A any](a A) A { return a }

// lensCombo: something with Get(*S) B / Put(*S, B) *S, exercised like a field lens
func lensCombo(kind string, req obj, tys map[string]reflect.Type, B reflect.Type, mk func() any) combo {
	return combo{Kind: kind, Req: req, Tys: tys, Run: func(sd *shapeDef, ar *arena) obj {
		var l any
		_, p := try(func() any { l = mk(); return nil })
		if p {
			return obj{"panic": true}
		}
		// "vbits": the values put are drawn from the signed integers of that many bits (0: any value of B)
		if n, ok := req["vbits"].(int); ok {
			valueBits = n
			defer func() { valueBits = 0 }()
		}
		return obj{"panic": false, "lens": observeLens(sd, ar, l, 0, B, false, false)}
	}}
}

func callVoid(m reflect.Value, name string, args ...reflect.Value) (panicked bool) {
	defer func() {
		if recover() != nil {
			panicked = true
		}
	}()
	m.MethodByName(name).Call(args)
	return false
}

// isoCombo: an Isomorphism[S, S] between two instances of the shape (two arenas with different values):
// Forward(s, t) then Inverse(t, s2) into a third instance, with the byte diffs of the structures after each step
func isoCombo(kind string, req obj, tys map[string]reflect.Type, mk func() any) combo {
	return combo{Kind: kind, Req: req, Tys: tys, Run: func(sd *shapeDef, ar *arena) obj {
		var m any
		_, p := try(func() any { m = mk(); return nil })
		if p {
			return obj{"panic": true}
		}
		ar2, ar3 := newArena(sd), newArena(sd)
		ws, s := ar.instance()
		wt, t := ar2.instance()
		ws2, s2 := ar3.instance()
		mv := reflect.ValueOf(m)
		sp, tp, sp2 := reflect.NewAt(sd.T, s), reflect.NewAt(sd.T, t), reflect.NewAt(sd.T, s2)
		pf := callVoid(mv, "Forward", sp, tp)
		ds1, dt1 := diff(ar.template, ws), diff(ar2.template, wt)
		// the way back goes into a third instance: its source foci must become those of the first
		pi := callVoid(mv, "Inverse", tp, sp2)
		ds2, dt2 := diff(ar3.template, ws2), diff(ar2.template, wt)
		return obj{"panic": false, "before_t": ints(ar2.template), "before_s2": ints(ar3.template), "pf": pf, "pi": pi,
			"ds1": ds1, "dt1": dt1, "ds2": ds2, "dt2": dt2}
	}}
}

// mapCombo: optics.NewLensM on a map[string]int
func mapCombo(req obj, init map[string]int, key string, v int) combo {
	return combo{Kind: "mapkey", Req: req, Run: func(sd *shapeDef, ar *arena) obj {
		m := map[string]int{}
		for k, x := range init {
			m[k] = x
		}
		l := optics.NewLensM[map[string]int, string, int](key)
		// a Getter over the map lens never writes: its Put leaves the map as it is - no key appears, no value
		// changes (folded into "same" below: the observation "Put returned its argument, untouched where it must be")
		gm := map[string]int{}
		for k, x := range init {
			gm[k] = x
		}
		gl := optics.Getter(l, func(x int) int { return x + 1 })
		gr := gl.Put(&gm, v)
		getterQuiet := gr == &gm && len(gm) == len(init)
		for k, x := range init {
			if y, ok := gm[k]; !ok || y != x {
				getterQuiet = false
			}
		}
		// ... and a Getter over a Setter reads nothing and writes nothing
		sm := map[string]int{}
		for k, x := range init {
			sm[k] = x
		}
		optics.Getter(optics.Setter(l, func(x int) int { return x + 2 }), func(x int) int { return x + 3 }).Put(&sm, v)
		if len(sm) != len(init) {
			getterQuiet = false
		}
		for k, x := range init {
			if sm[k] != x {
				getterQuiet = false
			}
		}
		g0 := l.Get(&m)
		r := l.Put(&m, v)
		g1 := l.Get(&m)
		keys := []string{}
		for k := range m {
			keys = append(keys, k)
		}
		sort.Strings(keys)
		after := [][2]any{}
		for _, k := range keys {
			after = append(after, [2]any{k, m[k]})
		}
		return obj{"panic": false, "get0": g0, "get1": g1, "same": r == &m && getterQuiet, "after": after}
	}}
}

func runC04(sd *shapeDef, ar *arena, L []entryObs) {
	for i := range sd.Combos {
		cb := &sd.Combos[i]
		var o obj
		_, p := try(func() any { o = cb.Run(sd, ar); return nil })
		if p {
			o = obj{"panic": true}
		}
		req := obj{"combo": cb.Kind}
		for k, v := range cb.Req {
			req[k] = v
		}
		td := obj{}
		for k, t := range cb.Tys {
			td[k] = describe(t)
		}
		req["tydesc"] = td
		c("C04", sd.ID, req, o)
	}
	// the ShapeN lenses of this shape
	u := nameUniverse(sd, L)
	for i := range sd.Derive {
		d := &sd.Derive[i]
		if d.Via != "shape" || d.Ptr {
			continue
		}
		for _, attr := range attrsFor(sd, d, L, u, false) {
			runDerivation(sd, ar, "C04", d, attr, []string{}, false)
		}
	}
}
