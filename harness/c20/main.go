// Harness for C20: runs the real PipeN (staged copy of /repo/internal/pipe) on coded
// families of pairwise non-commuting functions and prints one JSON case per line.
package main

import (
	"encoding/json"
	"fmt"
	"math"
	"math/rand"
	"os"
	"strconv"

	pipe "github.com/fogfish/golem/ipipe"
)

type Case struct {
	Arity    int     `json:"arity"`
	Fam      int     `json:"fam"`
	Input    []int64 `json:"input"`
	Observed []int64 `json:"observed"`
}

func f01(fam int, i int64) func(int64) int64 {
	return func(x int64) int64 {
		if fam == 0 {
			return 2*x + i
		}
		if i%2 != 0 {
			return x - i
		}
		return 3 * x
	}
}

func f2(i int64) func([]int64) []int64 {
	return func(l []int64) []int64 {
		r := make([]int64, 0, len(l)+1)
		r = append(r, l...)
		return append(r, i)
	}
}

// family 3: values of interface type, the nil interface value being the empty list:
// f_i(nil) = [i], f_i(l) = append(l, i).  A pipe that mishandles nil interface values shows here.
func f3(i int64) func(any) any {
	return func(x any) any {
		if x == nil {
			// a nil INTERFACE value: counted as the list [-1000] (a typed nil slice inside the interface is the empty
			// list - the two must not be confused on the way through the pipeline)
			return []int64{-1000, i}
		}
		l := x.([]int64)
		r := make([]int64, 0, len(l)+1)
		r = append(r, l...)
		return append(r, i)
	}
}

func run01(n, fam int, x int64) int64 {
	switch n {
	case 2:
		return pipe.Pipe(f01(fam, 1), f01(fam, 2))(x)
	case 3:
		return pipe.Pipe3(f01(fam, 1), f01(fam, 2), f01(fam, 3))(x)
	case 4:
		return pipe.Pipe4(f01(fam, 1), f01(fam, 2), f01(fam, 3), f01(fam, 4))(x)
	case 5:
		return pipe.Pipe5(f01(fam, 1), f01(fam, 2), f01(fam, 3), f01(fam, 4), f01(fam, 5))(x)
	case 6:
		return pipe.Pipe6(f01(fam, 1), f01(fam, 2), f01(fam, 3), f01(fam, 4), f01(fam, 5), f01(fam, 6))(x)
	case 7:
		return pipe.Pipe7(f01(fam, 1), f01(fam, 2), f01(fam, 3), f01(fam, 4), f01(fam, 5), f01(fam, 6), f01(fam, 7))(x)
	case 8:
		return pipe.Pipe8(f01(fam, 1), f01(fam, 2), f01(fam, 3), f01(fam, 4), f01(fam, 5), f01(fam, 6), f01(fam, 7), f01(fam, 8))(x)
	case 9:
		return pipe.Pipe9(f01(fam, 1), f01(fam, 2), f01(fam, 3), f01(fam, 4), f01(fam, 5), f01(fam, 6), f01(fam, 7), f01(fam, 8), f01(fam, 9))(x)
	case 10:
		return pipe.Pipe10(f01(fam, 1), f01(fam, 2), f01(fam, 3), f01(fam, 4), f01(fam, 5), f01(fam, 6), f01(fam, 7), f01(fam, 8), f01(fam, 9), f01(fam, 10))(x)
	case 11:
		return pipe.Pipe11(f01(fam, 1), f01(fam, 2), f01(fam, 3), f01(fam, 4), f01(fam, 5), f01(fam, 6), f01(fam, 7), f01(fam, 8), f01(fam, 9), f01(fam, 10), f01(fam, 11))(x)
	case 12:
		return pipe.Pipe12(f01(fam, 1), f01(fam, 2), f01(fam, 3), f01(fam, 4), f01(fam, 5), f01(fam, 6), f01(fam, 7), f01(fam, 8), f01(fam, 9), f01(fam, 10), f01(fam, 11), f01(fam, 12))(x)
	case 13:
		return pipe.Pipe13(f01(fam, 1), f01(fam, 2), f01(fam, 3), f01(fam, 4), f01(fam, 5), f01(fam, 6), f01(fam, 7), f01(fam, 8), f01(fam, 9), f01(fam, 10), f01(fam, 11), f01(fam, 12), f01(fam, 13))(x)
	case 14:
		return pipe.Pipe14(f01(fam, 1), f01(fam, 2), f01(fam, 3), f01(fam, 4), f01(fam, 5), f01(fam, 6), f01(fam, 7), f01(fam, 8), f01(fam, 9), f01(fam, 10), f01(fam, 11), f01(fam, 12), f01(fam, 13), f01(fam, 14))(x)
	case 15:
		return pipe.Pipe15(f01(fam, 1), f01(fam, 2), f01(fam, 3), f01(fam, 4), f01(fam, 5), f01(fam, 6), f01(fam, 7), f01(fam, 8), f01(fam, 9), f01(fam, 10), f01(fam, 11), f01(fam, 12), f01(fam, 13), f01(fam, 14), f01(fam, 15))(x)
	case 16:
		return pipe.Pipe16(f01(fam, 1), f01(fam, 2), f01(fam, 3), f01(fam, 4), f01(fam, 5), f01(fam, 6), f01(fam, 7), f01(fam, 8), f01(fam, 9), f01(fam, 10), f01(fam, 11), f01(fam, 12), f01(fam, 13), f01(fam, 14), f01(fam, 15), f01(fam, 16))(x)
	case 17:
		return pipe.Pipe17(f01(fam, 1), f01(fam, 2), f01(fam, 3), f01(fam, 4), f01(fam, 5), f01(fam, 6), f01(fam, 7), f01(fam, 8), f01(fam, 9), f01(fam, 10), f01(fam, 11), f01(fam, 12), f01(fam, 13), f01(fam, 14), f01(fam, 15), f01(fam, 16), f01(fam, 17))(x)
	case 18:
		return pipe.Pipe18(f01(fam, 1), f01(fam, 2), f01(fam, 3), f01(fam, 4), f01(fam, 5), f01(fam, 6), f01(fam, 7), f01(fam, 8), f01(fam, 9), f01(fam, 10), f01(fam, 11), f01(fam, 12), f01(fam, 13), f01(fam, 14), f01(fam, 15), f01(fam, 16), f01(fam, 17), f01(fam, 18))(x)
	case 19:
		return pipe.Pipe19(f01(fam, 1), f01(fam, 2), f01(fam, 3), f01(fam, 4), f01(fam, 5), f01(fam, 6), f01(fam, 7), f01(fam, 8), f01(fam, 9), f01(fam, 10), f01(fam, 11), f01(fam, 12), f01(fam, 13), f01(fam, 14), f01(fam, 15), f01(fam, 16), f01(fam, 17), f01(fam, 18), f01(fam, 19))(x)
	case 20:
		return pipe.Pipe20(f01(fam, 1), f01(fam, 2), f01(fam, 3), f01(fam, 4), f01(fam, 5), f01(fam, 6), f01(fam, 7), f01(fam, 8), f01(fam, 9), f01(fam, 10), f01(fam, 11), f01(fam, 12), f01(fam, 13), f01(fam, 14), f01(fam, 15), f01(fam, 16), f01(fam, 17), f01(fam, 18), f01(fam, 19), f01(fam, 20))(x)
	}
	panic("arity")
}

func build2(n int, f func(int64) func([]int64) []int64) func([]int64) []int64 {
	switch n {
	case 2:
		return pipe.Pipe(f(1), f(2))
	case 3:
		return pipe.Pipe3(f(1), f(2), f(3))
	case 4:
		return pipe.Pipe4(f(1), f(2), f(3), f(4))
	case 5:
		return pipe.Pipe5(f(1), f(2), f(3), f(4), f(5))
	case 6:
		return pipe.Pipe6(f(1), f(2), f(3), f(4), f(5), f(6))
	case 7:
		return pipe.Pipe7(f(1), f(2), f(3), f(4), f(5), f(6), f(7))
	case 8:
		return pipe.Pipe8(f(1), f(2), f(3), f(4), f(5), f(6), f(7), f(8))
	case 9:
		return pipe.Pipe9(f(1), f(2), f(3), f(4), f(5), f(6), f(7), f(8), f(9))
	case 10:
		return pipe.Pipe10(f(1), f(2), f(3), f(4), f(5), f(6), f(7), f(8), f(9), f(10))
	case 11:
		return pipe.Pipe11(f(1), f(2), f(3), f(4), f(5), f(6), f(7), f(8), f(9), f(10), f(11))
	case 12:
		return pipe.Pipe12(f(1), f(2), f(3), f(4), f(5), f(6), f(7), f(8), f(9), f(10), f(11), f(12))
	case 13:
		return pipe.Pipe13(f(1), f(2), f(3), f(4), f(5), f(6), f(7), f(8), f(9), f(10), f(11), f(12), f(13))
	case 14:
		return pipe.Pipe14(f(1), f(2), f(3), f(4), f(5), f(6), f(7), f(8), f(9), f(10), f(11), f(12), f(13), f(14))
	case 15:
		return pipe.Pipe15(f(1), f(2), f(3), f(4), f(5), f(6), f(7), f(8), f(9), f(10), f(11), f(12), f(13), f(14), f(15))
	case 16:
		return pipe.Pipe16(f(1), f(2), f(3), f(4), f(5), f(6), f(7), f(8), f(9), f(10), f(11), f(12), f(13), f(14), f(15), f(16))
	case 17:
		return pipe.Pipe17(f(1), f(2), f(3), f(4), f(5), f(6), f(7), f(8), f(9), f(10), f(11), f(12), f(13), f(14), f(15), f(16), f(17))
	case 18:
		return pipe.Pipe18(f(1), f(2), f(3), f(4), f(5), f(6), f(7), f(8), f(9), f(10), f(11), f(12), f(13), f(14), f(15), f(16), f(17), f(18))
	case 19:
		return pipe.Pipe19(f(1), f(2), f(3), f(4), f(5), f(6), f(7), f(8), f(9), f(10), f(11), f(12), f(13), f(14), f(15), f(16), f(17), f(18), f(19))
	case 20:
		return pipe.Pipe20(f(1), f(2), f(3), f(4), f(5), f(6), f(7), f(8), f(9), f(10), f(11), f(12), f(13), f(14), f(15), f(16), f(17), f(18), f(19), f(20))
	}
	panic("arity")
}

func build5(n int, f func(int64) func(float64) float64) func(float64) float64 {
	switch n {
	case 2:
		return pipe.Pipe(f(1), f(2))
	case 3:
		return pipe.Pipe3(f(1), f(2), f(3))
	case 4:
		return pipe.Pipe4(f(1), f(2), f(3), f(4))
	case 5:
		return pipe.Pipe5(f(1), f(2), f(3), f(4), f(5))
	case 6:
		return pipe.Pipe6(f(1), f(2), f(3), f(4), f(5), f(6))
	case 7:
		return pipe.Pipe7(f(1), f(2), f(3), f(4), f(5), f(6), f(7))
	case 8:
		return pipe.Pipe8(f(1), f(2), f(3), f(4), f(5), f(6), f(7), f(8))
	case 9:
		return pipe.Pipe9(f(1), f(2), f(3), f(4), f(5), f(6), f(7), f(8), f(9))
	case 10:
		return pipe.Pipe10(f(1), f(2), f(3), f(4), f(5), f(6), f(7), f(8), f(9), f(10))
	case 11:
		return pipe.Pipe11(f(1), f(2), f(3), f(4), f(5), f(6), f(7), f(8), f(9), f(10), f(11))
	case 12:
		return pipe.Pipe12(f(1), f(2), f(3), f(4), f(5), f(6), f(7), f(8), f(9), f(10), f(11), f(12))
	case 13:
		return pipe.Pipe13(f(1), f(2), f(3), f(4), f(5), f(6), f(7), f(8), f(9), f(10), f(11), f(12), f(13))
	case 14:
		return pipe.Pipe14(f(1), f(2), f(3), f(4), f(5), f(6), f(7), f(8), f(9), f(10), f(11), f(12), f(13), f(14))
	case 15:
		return pipe.Pipe15(f(1), f(2), f(3), f(4), f(5), f(6), f(7), f(8), f(9), f(10), f(11), f(12), f(13), f(14), f(15))
	case 16:
		return pipe.Pipe16(f(1), f(2), f(3), f(4), f(5), f(6), f(7), f(8), f(9), f(10), f(11), f(12), f(13), f(14), f(15), f(16))
	case 17:
		return pipe.Pipe17(f(1), f(2), f(3), f(4), f(5), f(6), f(7), f(8), f(9), f(10), f(11), f(12), f(13), f(14), f(15), f(16), f(17))
	case 18:
		return pipe.Pipe18(f(1), f(2), f(3), f(4), f(5), f(6), f(7), f(8), f(9), f(10), f(11), f(12), f(13), f(14), f(15), f(16), f(17), f(18))
	case 19:
		return pipe.Pipe19(f(1), f(2), f(3), f(4), f(5), f(6), f(7), f(8), f(9), f(10), f(11), f(12), f(13), f(14), f(15), f(16), f(17), f(18), f(19))
	case 20:
		return pipe.Pipe20(f(1), f(2), f(3), f(4), f(5), f(6), f(7), f(8), f(9), f(10), f(11), f(12), f(13), f(14), f(15), f(16), f(17), f(18), f(19), f(20))
	}
	panic("arity")
}

// family 5: float64 values (x -> x/2 + i): arguments and all intermediate values are dyadic rationals with at most
// 22 binary places, so the arithmetic is exact; the result is reported multiplied by 2^24
func run5(n int, x float64) int64 {
	p := build5(n, func(i int64) func(float64) float64 {
		return func(v float64) float64 { return v/2 + float64(i) }
	})
	return int64(p(x) * (1 << 24))
}

// the same switch for any value type T
func buildG[T any](n int, f func(int64) func(T) T) func(T) T {
	switch n {
	case 2:
		return pipe.Pipe(f(1), f(2))
	case 3:
		return pipe.Pipe3(f(1), f(2), f(3))
	case 4:
		return pipe.Pipe4(f(1), f(2), f(3), f(4))
	case 5:
		return pipe.Pipe5(f(1), f(2), f(3), f(4), f(5))
	case 6:
		return pipe.Pipe6(f(1), f(2), f(3), f(4), f(5), f(6))
	case 7:
		return pipe.Pipe7(f(1), f(2), f(3), f(4), f(5), f(6), f(7))
	case 8:
		return pipe.Pipe8(f(1), f(2), f(3), f(4), f(5), f(6), f(7), f(8))
	case 9:
		return pipe.Pipe9(f(1), f(2), f(3), f(4), f(5), f(6), f(7), f(8), f(9))
	case 10:
		return pipe.Pipe10(f(1), f(2), f(3), f(4), f(5), f(6), f(7), f(8), f(9), f(10))
	case 11:
		return pipe.Pipe11(f(1), f(2), f(3), f(4), f(5), f(6), f(7), f(8), f(9), f(10), f(11))
	case 12:
		return pipe.Pipe12(f(1), f(2), f(3), f(4), f(5), f(6), f(7), f(8), f(9), f(10), f(11), f(12))
	case 13:
		return pipe.Pipe13(f(1), f(2), f(3), f(4), f(5), f(6), f(7), f(8), f(9), f(10), f(11), f(12), f(13))
	case 14:
		return pipe.Pipe14(f(1), f(2), f(3), f(4), f(5), f(6), f(7), f(8), f(9), f(10), f(11), f(12), f(13), f(14))
	case 15:
		return pipe.Pipe15(f(1), f(2), f(3), f(4), f(5), f(6), f(7), f(8), f(9), f(10), f(11), f(12), f(13), f(14), f(15))
	case 16:
		return pipe.Pipe16(f(1), f(2), f(3), f(4), f(5), f(6), f(7), f(8), f(9), f(10), f(11), f(12), f(13), f(14), f(15), f(16))
	case 17:
		return pipe.Pipe17(f(1), f(2), f(3), f(4), f(5), f(6), f(7), f(8), f(9), f(10), f(11), f(12), f(13), f(14), f(15), f(16), f(17))
	case 18:
		return pipe.Pipe18(f(1), f(2), f(3), f(4), f(5), f(6), f(7), f(8), f(9), f(10), f(11), f(12), f(13), f(14), f(15), f(16), f(17), f(18))
	case 19:
		return pipe.Pipe19(f(1), f(2), f(3), f(4), f(5), f(6), f(7), f(8), f(9), f(10), f(11), f(12), f(13), f(14), f(15), f(16), f(17), f(18), f(19))
	case 20:
		return pipe.Pipe20(f(1), f(2), f(3), f(4), f(5), f(6), f(7), f(8), f(9), f(10), f(11), f(12), f(13), f(14), f(15), f(16), f(17), f(18), f(19), f(20))
	}
	panic("arity")
}

// family 6: ONE pipeline value called twice with the SAME scalar argument; its stages read a setting that changes
// between the calls (v -> 3v + i*setting) and count their applications: every call applies every stage once, whatever
// was computed before
func run6(n int, x int64) []int64 {
	setting, calls := int64(1), int64(0)
	p := buildG(n, func(i int64) func(int64) int64 {
		return func(v int64) int64 { calls++; return 3*v + i*setting }
	})
	r1 := p(x)
	setting = 2
	r2 := p(x)
	return []int64{r1, r2, calls}
}

// family 7: one float64 pipeline called on +0 and on -0 (== holds between them, they are different arguments): stage 1
// yields -1 or +1 by the sign bit, the others are those of family 5; results times 2^24, in the order of the calls
func run7(n int, negFirst bool) []int64 {
	p := buildG(n, func(i int64) func(float64) float64 {
		if i == 1 {
			return func(v float64) float64 {
				if math.Signbit(v) {
					return -1
				}
				return 1
			}
		}
		return func(v float64) float64 { return v/2 + float64(i) }
	})
	pos, neg := 0.0, math.Copysign(0, -1)
	a, b := pos, neg
	if negFirst {
		a, b = neg, pos
	}
	return []int64{int64(p(a) * (1 << 24)), int64(p(b) * (1 << 24))}
}

func run2(n int, l []int64) []int64 { return build2(n, f2)(l) }

// family 4: stage (n+1)/2, when reached in the outermost call, calls the very pipeline it belongs to on another
// argument and records the length of what came back; every stage appends its number (family 2). A pipeline value
// is a function: calling it from inside one of its own stages must not disturb the call in progress.
func run4(n int, l []int64) []int64 {
	var p func([]int64) []int64
	depth := 0
	k := int64((n + 1) / 2)
	p = build2(n, func(i int64) func([]int64) []int64 {
		return func(x []int64) []int64 {
			if i == k && depth == 0 {
				depth++
				r := p([]int64{100})
				depth--
				return append(append([]int64{}, x...), i, int64(len(r)))
			}
			return append(append([]int64{}, x...), i)
		}
	})
	return p(l)
}

func run3(n int, l any) (res []int64) {
	defer func() {
		if recover() != nil {
			res = []int64{-999}
		}
	}()
	switch n {
	case 2:
		return pipe.Pipe(f3(1), f3(2))(l).([]int64)
	case 3:
		return pipe.Pipe3(f3(1), f3(2), f3(3))(l).([]int64)
	case 4:
		return pipe.Pipe4(f3(1), f3(2), f3(3), f3(4))(l).([]int64)
	case 5:
		return pipe.Pipe5(f3(1), f3(2), f3(3), f3(4), f3(5))(l).([]int64)
	case 6:
		return pipe.Pipe6(f3(1), f3(2), f3(3), f3(4), f3(5), f3(6))(l).([]int64)
	case 7:
		return pipe.Pipe7(f3(1), f3(2), f3(3), f3(4), f3(5), f3(6), f3(7))(l).([]int64)
	case 8:
		return pipe.Pipe8(f3(1), f3(2), f3(3), f3(4), f3(5), f3(6), f3(7), f3(8))(l).([]int64)
	case 9:
		return pipe.Pipe9(f3(1), f3(2), f3(3), f3(4), f3(5), f3(6), f3(7), f3(8), f3(9))(l).([]int64)
	case 10:
		return pipe.Pipe10(f3(1), f3(2), f3(3), f3(4), f3(5), f3(6), f3(7), f3(8), f3(9), f3(10))(l).([]int64)
	case 11:
		return pipe.Pipe11(f3(1), f3(2), f3(3), f3(4), f3(5), f3(6), f3(7), f3(8), f3(9), f3(10), f3(11))(l).([]int64)
	case 12:
		return pipe.Pipe12(f3(1), f3(2), f3(3), f3(4), f3(5), f3(6), f3(7), f3(8), f3(9), f3(10), f3(11), f3(12))(l).([]int64)
	case 13:
		return pipe.Pipe13(f3(1), f3(2), f3(3), f3(4), f3(5), f3(6), f3(7), f3(8), f3(9), f3(10), f3(11), f3(12), f3(13))(l).([]int64)
	case 14:
		return pipe.Pipe14(f3(1), f3(2), f3(3), f3(4), f3(5), f3(6), f3(7), f3(8), f3(9), f3(10), f3(11), f3(12), f3(13), f3(14))(l).([]int64)
	case 15:
		return pipe.Pipe15(f3(1), f3(2), f3(3), f3(4), f3(5), f3(6), f3(7), f3(8), f3(9), f3(10), f3(11), f3(12), f3(13), f3(14), f3(15))(l).([]int64)
	case 16:
		return pipe.Pipe16(f3(1), f3(2), f3(3), f3(4), f3(5), f3(6), f3(7), f3(8), f3(9), f3(10), f3(11), f3(12), f3(13), f3(14), f3(15), f3(16))(l).([]int64)
	case 17:
		return pipe.Pipe17(f3(1), f3(2), f3(3), f3(4), f3(5), f3(6), f3(7), f3(8), f3(9), f3(10), f3(11), f3(12), f3(13), f3(14), f3(15), f3(16), f3(17))(l).([]int64)
	case 18:
		return pipe.Pipe18(f3(1), f3(2), f3(3), f3(4), f3(5), f3(6), f3(7), f3(8), f3(9), f3(10), f3(11), f3(12), f3(13), f3(14), f3(15), f3(16), f3(17), f3(18))(l).([]int64)
	case 19:
		return pipe.Pipe19(f3(1), f3(2), f3(3), f3(4), f3(5), f3(6), f3(7), f3(8), f3(9), f3(10), f3(11), f3(12), f3(13), f3(14), f3(15), f3(16), f3(17), f3(18), f3(19))(l).([]int64)
	case 20:
		return pipe.Pipe20(f3(1), f3(2), f3(3), f3(4), f3(5), f3(6), f3(7), f3(8), f3(9), f3(10), f3(11), f3(12), f3(13), f3(14), f3(15), f3(16), f3(17), f3(18), f3(19), f3(20))(l).([]int64)
	}
	panic("arity")
}

func main() {
	seed, _ := strconv.ParseInt(os.Getenv("VERIF_SEED"), 10, 64)
	per := 6
	if os.Getenv("VERIF_TIER") == "thorough" {
		per = 60
	}
	rng := rand.New(rand.NewSource(seed))
	enc := json.NewEncoder(os.Stdout)
	for n := 2; n <= 20; n++ {
		for k := 0; k < per; k++ {
			for fam := 0; fam <= 7; fam++ {
				c := Case{Arity: n, Fam: fam}
				switch fam {
				case 0:
					// |x| < 2^20 keeps 2^20*x + ... inside int64
					x := rng.Int63n(1<<21) - 1<<20
					if k == 0 {
						x = 0
					}
					c.Input = []int64{x}
					c.Observed = []int64{run01(n, fam, x)}
				case 1:
					// 3^10 * x : |x| < 2^20 is safe
					x := rng.Int63n(1<<21) - 1<<20
					if k == 0 {
						x = 1
					}
					c.Input = []int64{x}
					c.Observed = []int64{run01(n, fam, x)}
				case 3:
					// the nil interface value as argument, a typed nil slice inside the interface (written [-7777]), or a
					// one-element list
					if k%3 == 0 {
						c.Input = []int64{}
						c.Observed = run3(n, nil)
					} else if k%3 == 1 {
						c.Input = []int64{-7777}
						c.Observed = run3(n, []int64(nil))
					} else {
						c.Input = []int64{-7}
						c.Observed = run3(n, []int64{-7})
					}
				case 5:
					// quarters in [-64, 64): negative and fractional values
					q := rng.Int63n(512) - 256
					c.Input = []int64{q}
					c.Observed = []int64{run5(n, float64(q)/4)}
				case 6:
					x := rng.Int63n(1<<21) - 1<<20
					if k == 0 {
						x = 0
					}
					c.Input = []int64{x}
					c.Observed = run6(n, x)
				case 7:
					c.Input = []int64{int64(k % 2)}
					c.Observed = run7(n, k%2 == 1)
				case 4:
					l := []int64{}
					for j := 0; j < k%3; j++ {
						l = append(l, -rng.Int63n(100))
					}
					c.Input = l
					c.Observed = run4(n, l)
				case 2:
					l := []int64{}
					for j := 0; j < k%3; j++ {
						l = append(l, -rng.Int63n(100))
					}
					c.Input = l
					c.Observed = run2(n, l)
				}
				if err := enc.Encode(c); err != nil {
					fmt.Fprintln(os.Stderr, err)
					os.Exit(2)
				}
			}
		}
	}
}
