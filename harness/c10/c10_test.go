//go:build verif

// Harness for C10: the real fork.Fold against pipe.Fold and a plain loop, on coded commutative
// monoids with zero and non-zero identities. One JSON case per line into $VERIF_OUT.
//
// How the input reaches the workers (field "mode"):
//
//	0  preloaded, closed, buffered channel (pipe.Seq); real scheduler decides the distribution
//	1  testing/synctest bubble, unbuffered input, one send then synctest.Wait(): the parked workers
//	   are served in turn, so every worker gets a share whenever len(input) >= par
//	2  unbuffered input fed by a producer goroutine that yields at random; real scheduler
//
//	3  volume: 1..N with N large, preloaded; many workers really in parallel (GOMAXPROCS 4..16), so that a
//	   few-instruction window between a worker's receive and its Combine is hit; judged here, failing rounds
//	   and two passing ones are forwarded in compact form (n instead of the input)
//
//	4  the sum monoid over REFERENCE-typed accumulators whose Combine updates its left operand in place (every
//	   Empty() a fresh one); preloaded input, real scheduler
//
// With VERIF_CASES=<file> (JSON lines: monoid, par, mode, input) exactly those cases are run.
package c10

import (
	"bufio"
	"context"
	"encoding/json"
	"fmt"
	"math"
	"math/bits"
	"math/rand"
	"os"
	"runtime"
	"strconv"
	"testing"
	"testing/synctest"
	"time"

	"github.com/fogfish/golem/pipe/v2"
	"github.com/fogfish/golem/pipe/v2/fork"
	"github.com/fogfish/golem/pure/monoid"
)

type Case struct {
	Monoid   int   `json:"monoid"`
	Par      int   `json:"par"`
	Mode     int   `json:"mode"`
	Input    []int `json:"input"`
	Observed []int `json:"observed"`
	Closed   bool  `json:"closed"`
	PFold    []int `json:"pfold"`
	PClosed  bool  `json:"pclosed"`
	Loop     int   `json:"loop"`
	N        int   `json:"n,omitempty"` // mode 3: the input is 1..N (not listed)
}

const (
	mSum = iota
	mProd
	mMax
	mMin
	mAnd
	mOr
	nMonoids
)

func mulChecked(a, b int) int {
	hi, lo := bits.Mul64(uint64(abs(a)), uint64(abs(b)))
	if hi != 0 || lo > math.MaxInt64 {
		panic(fmt.Sprintf("harness: product overflows int64: %d * %d", a, b))
	}
	return a * b
}

func abs(a int) int {
	if a < 0 {
		return -a
	}
	return a
}

func addChecked(a, b int) int {
	c := a + b
	if (c > a) != (b > 0) && b != 0 {
		panic(fmt.Sprintf("harness: sum overflows int64: %d + %d", a, b))
	}
	return c
}

func mk(code int) monoid.Monoid[int] {
	switch code {
	case mSum:
		return monoid.FromOp(0, addChecked)
	case mProd:
		return monoid.FromOp(1, mulChecked)
	case mMax:
		return monoid.FromOp(math.MinInt64, func(a, b int) int {
			if a > b {
				return a
			}
			return b
		})
	case mMin:
		return monoid.FromOp(math.MaxInt64, func(a, b int) int {
			if a < b {
				return a
			}
			return b
		})
	case mAnd:
		return monoid.FromOp(-1, func(a, b int) int { return a & b })
	case mOr:
		return monoid.FromOp(0, func(a, b int) int { return a | b })
	}
	panic("monoid code")
}

// collect reads the result channel until it closes, four values arrived, or nothing happens for d.
func collect(ch <-chan int, d time.Duration) (vs []int, closed bool) {
	vs = []int{}
	for len(vs) < 4 {
		select {
		case v, ok := <-ch:
			if !ok {
				return vs, true
			}
			vs = append(vs, v)
		case <-time.After(d):
			timeouts++
			return vs, false
		}
	}
	return vs, false
}

// Real-time runs (modes 0 and 2) wait this long for a value that never comes: generous while nothing ever
// timed out (a loaded machine must not look like a lost value), short once the code has shown that it hangs.
var timeouts int

func patience() time.Duration {
	if timeouts >= 3 {
		return 300 * time.Millisecond
	}
	return 15 * time.Second
}

// a monoid whose elements are references and whose Combine updates its LEFT operand in place (a legitimate way to
// write an accumulating monoid: big numbers, bags, buffers): every Empty() is a fresh accumulator
type cell struct{ v int }
type cellSum struct{}

func (cellSum) Empty() *cell { return &cell{} }
func (cellSum) Combine(a, b *cell) *cell {
	if a == nil || b == nil {
		// an accumulator or an element that nobody made (the zero value of the element type): the harness survives and
		// the result is spoiled for good
		return &cell{v: 1 << 40}
	}
	a.v = addChecked(a.v, b.v)
	return a
}

func runFork(t *testing.T, c *Case, rng *rand.Rand) {
	if c.Mode == 4 {
		cells := make([]*cell, len(c.Input))
		for i, x := range c.Input {
			cells[i] = &cell{v: x}
		}
		ctx, cancel := context.WithCancel(context.Background())
		out := fork.Fold[*cell](ctx, c.Par, pipe.Seq(cells...), cellSum{})
		c.Observed = []int{}
		for len(c.Observed) < 4 {
			select {
			case v, ok := <-out:
				if !ok {
					c.Closed = true
					cancel()
					return
				}
				c.Observed = append(c.Observed, v.v)
				continue
			case <-time.After(patience()):
				timeouts++
			}
			break
		}
		cancel()
		return
	}
	m := mk(c.Monoid)
	switch c.Mode {
	case 0:
		ctx, cancel := context.WithCancel(context.Background())
		c.Observed, c.Closed = collect(fork.Fold(ctx, c.Par, pipe.Seq(c.Input...), m), patience())
		cancel()
	case 1:
		// goroutines of the library that never exit make synctest.Test panic after the observation
		// was taken: the observation stands, the panic is not the harness's business
		defer func() { _ = recover() }()
		synctest.Test(t, func(t *testing.T) {
			ctx, cancel := context.WithCancel(context.Background())
			in := make(chan int)
			out := fork.Fold(ctx, c.Par, in, m)
			synctest.Wait()
			for _, x := range c.Input {
				in <- x
				synctest.Wait()
			}
			close(in)
			synctest.Wait()
			c.Observed, c.Closed = collect(out, time.Second)
			cancel()
		})
	case 2:
		yields := make([]int, len(c.Input))
		for i := range yields {
			yields[i] = rng.Intn(3)
		}
		ctx, cancel := context.WithCancel(context.Background())
		in := make(chan int)
		go func() {
			for i, x := range c.Input {
				for k := 0; k < yields[i]; k++ {
					runtime.Gosched()
				}
				in <- x
			}
			close(in)
		}()
		c.Observed, c.Closed = collect(fork.Fold(ctx, c.Par, in, m), patience())
		cancel()
	default:
		panic("mode")
	}
}

func runCase(t *testing.T, c *Case, rng *rand.Rand) {
	m := mk(c.Monoid)
	// plain loop (also asserts that nothing overflows)
	acc := m.Empty()
	for _, x := range c.Input {
		acc = m.Combine(acc, x)
	}
	c.Loop = acc
	ctx, cancel := context.WithCancel(context.Background())
	c.PFold, c.PClosed = collect(pipe.Fold(ctx, pipe.Seq(c.Input...), m), patience())
	cancel()
	runFork(t, c, rng)
}

func value(code int, i int, kind int, rng *rand.Rand) int {
	switch code {
	case mSum:
		if kind == 0 {
			return 1 << (4 * uint(i)) // positional: the sum shows how often each element was combined
		}
		return rng.Intn(2001) - 1000
	case mProd:
		if kind == 0 {
			return []int{2, 3, 5, 7, -1, 2, 3, 5, 7, 2, 3, 5}[i%12]
		}
		v := rng.Intn(11) - 5
		if v == 0 && rng.Intn(4) != 0 {
			v = 2
		}
		return v
	case mMax, mMin:
		switch kind {
		case 0:
			return -1 - rng.Intn(1000) // all negative
		case 1:
			return 1 + rng.Intn(1000) // all positive
		}
		return rng.Intn(1<<40) - 1<<39
	case mAnd:
		if kind == 0 {
			return ^(1 << uint(i)) // each element clears its own bit
		}
		return int(rng.Uint64() | rng.Uint64())
	case mOr:
		if kind == 0 {
			return 1 << uint(i)
		}
		return int(rng.Uint64() & rng.Uint64() & rng.Uint64())
	}
	panic("monoid code")
}

func TestC10(t *testing.T) {
	seed, _ := strconv.ParseInt(os.Getenv("VERIF_SEED"), 10, 64)
	rng := rand.New(rand.NewSource(seed))
	outp := os.Getenv("VERIF_OUT")
	if outp == "" {
		t.Fatal("VERIF_OUT not set")
	}
	f, err := os.Create(outp)
	if err != nil {
		t.Fatal(err)
	}
	defer f.Close()
	w := bufio.NewWriter(f)
	defer w.Flush()
	enc := json.NewEncoder(w)
	emit := func(c *Case) {
		runCase(t, c, rng)
		if err := enc.Encode(c); err != nil {
			t.Fatal(err)
		}
	}

	if p := os.Getenv("VERIF_CASES"); p != "" {
		rf, err := os.Open(p)
		if err != nil {
			t.Fatal(err)
		}
		defer rf.Close()
		sc := bufio.NewScanner(rf)
		sc.Buffer(make([]byte, 1<<20), 1<<26)
		for sc.Scan() {
			if len(sc.Bytes()) == 0 {
				continue
			}
			var c Case
			if err := json.Unmarshal(sc.Bytes(), &c); err != nil {
				t.Fatal(err)
			}
			if c.Input == nil {
				c.Input = []int{}
			}
			emit(&Case{Monoid: c.Monoid, Par: c.Par, Mode: c.Mode, Input: c.Input})
		}
		return
	}

	kinds := 4
	rounds := 96
	if os.Getenv("VERIF_TIER") == "thorough" {
		kinds = 24
		rounds = 300
	}
	racePass := os.Getenv("VERIF_RACE_PASS") != ""
	if racePass {
		rounds = 12 // this binary is built with -race: the volume rounds only, a few of them
	}
	// volume rounds first (the distribution over workers is the real scheduler's)
	passed, failed := 0, 0
	for r := 0; r < rounds && failed < 3; r++ {
		n := 200000
		if r%3 == 0 || racePass {
			n = 2000
		}
		par := []int{2, 4, 8, 16}[r%4]
		runtime.GOMAXPROCS([]int{4, 8, 16}[r%3])
		xs := make([]int, n)
		for i := range xs {
			xs[i] = i + 1
		}
		// the sum sees a lost or a repeated element, the minimum (of 1..N: 1) an element that was never sent - a zero value
		// read off the closed channel is below every input
		code, want := mSum, n*(n+1)/2
		if r%2 == 1 {
			code, want = mMin, 1
		}
		m := mk(code)
		ctx, cancel := context.WithCancel(context.Background())
		obs, closed := collect(fork.Fold(ctx, par, pipe.Seq(xs...), m), patience())
		cancel()
		ok := closed && len(obs) == 1 && obs[0] == want
		if ok {
			passed++
		} else {
			failed++
		}
		if !ok || (n == 2000 && passed <= 4) {
			c := &Case{Monoid: code, Par: par, Mode: 3, Input: []int{}, N: n, Observed: obs, Closed: closed, PFold: []int{want}, PClosed: true, Loop: want}
			if err := enc.Encode(c); err != nil {
				t.Fatal(err)
			}
		}
	}
	runtime.GOMAXPROCS(runtime.NumCPU())
	if racePass {
		enc.Encode(map[string]any{"race_stats": map[string]int{"passed": passed, "failed": failed}})
		return
	}
	enc.Encode(map[string]any{"volume_stats": map[string]int{"passed": passed, "failed": failed}})
	pars := []int{1, 2, 3, 4, 7}
	// mode 4: sum over reference-typed accumulators (preloaded input, real scheduler)
	for n := 0; n <= 12; n++ {
		for _, par := range pars {
			for kind := 0; kind < kinds; kind++ {
				xs := make([]int, n)
				for i := range xs {
					xs[i] = value(mSum, i, kind, rng)
				}
				emit(&Case{Monoid: mSum, Par: par, Mode: 4, Input: xs})
			}
		}
	}
	for code := 0; code < nMonoids; code++ {
		for n := 0; n <= 12; n++ {
			for _, par := range pars {
				for mode := 0; mode <= 2; mode++ {
					for kind := 0; kind < kinds; kind++ {
						xs := make([]int, n)
						for i := range xs {
							xs[i] = value(code, i, kind, rng)
						}
						if kind > 0 {
							rng.Shuffle(n, func(i, j int) { xs[i], xs[j] = xs[j], xs[i] })
						}
						emit(&Case{Monoid: code, Par: par, Mode: mode, Input: xs})
					}
				}
			}
		}
	}
}
