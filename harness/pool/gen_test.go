package pool

import (
	"bufio"
	"encoding/json"
	"fmt"
	"math/rand"
	"os"
)

type plan struct {
	stage    *Stage
	icaps    []int
	inputs   [][]int
	sched    scheduler
	maxMoves int
	drain    bool
	gen      string
}

// ---------- schedulers ----------

// scripted replays a fixed list of intents, skipping those that are impossible now
type scripted struct {
	script []intent
	pos    int
}

func possible(in intent, st *runState) bool {
	switch in.kind {
	case "send":
		return in.i < len(st.inputs) && !st.closedIn[in.i] && !st.allSent(in.i)
	case "close":
		return in.i < len(st.inputs) && !st.closedIn[in.i]
	case "recv":
		return in.k < st.nouts && !st.closedOut[in.k]
	case "cancel":
		return !st.cancelled
	case "release":
		for _, a := range st.parked {
			if a == in.i {
				return true
			}
		}
		return false
	}
	return true
}

func (s *scripted) next(st *runState) (intent, bool) {
	for s.pos < len(s.script) {
		in := s.script[s.pos]
		s.pos++
		if in.kind == "release-any" {
			if len(st.parked) == 0 {
				continue
			}
			return intent{kind: "release", i: st.parked[in.i%len(st.parked)]}, true
		}
		if possible(in, st) {
			return in, true
		}
	}
	return intent{}, false
}

// random draws the next intent from the currently possible ones
type random struct {
	rng                                       *rand.Rand
	wSend, wClose, wRecv, wCancel, wRel, wSlp int
	sleeps                                    []int
	closeEarly                                bool
}

func (r *random) next(st *runState) (intent, bool) {
	type opt struct {
		in intent
		w  int
	}
	var opts []opt
	for i := range st.inputs {
		if st.closedIn[i] {
			continue
		}
		if !st.allSent(i) {
			opts = append(opts, opt{intent{kind: "send", i: i}, r.wSend})
			if r.closeEarly {
				opts = append(opts, opt{intent{kind: "close", i: i}, 1})
			}
		} else {
			opts = append(opts, opt{intent{kind: "close", i: i}, r.wClose})
		}
	}
	for k := 0; k < st.nouts; k++ {
		if !st.closedOut[k] {
			opts = append(opts, opt{intent{kind: "recv", k: k}, r.wRecv})
		}
	}
	if !st.cancelled && r.wCancel > 0 {
		opts = append(opts, opt{intent{kind: "cancel"}, r.wCancel})
	}
	for _, a := range st.parked {
		opts = append(opts, opt{intent{kind: "release", i: a}, r.wRel})
	}
	if r.wSlp > 0 {
		opts = append(opts, opt{intent{kind: "sleep", d: r.sleeps[r.rng.Intn(len(r.sleeps))]}, r.wSlp})
	}
	total := 0
	for _, o := range opts {
		total += o.w
	}
	if total == 0 {
		return intent{}, false
	}
	x := r.rng.Intn(total)
	for _, o := range opts {
		if x < o.w {
			return o.in, true
		}
		x -= o.w
	}
	return intent{}, false
}

// ---------- enumeration of small interleavings ----------

// all sequences of exactly n tokens over the alphabet, with at most maxS sends, one close, one cancel
func enumScripts(alpha []intent, n, maxS int) [][]intent {
	var res [][]intent
	var cur []intent
	var rec func(sends, closes, cancels int)
	rec = func(sends, closes, cancels int) {
		if len(cur) == n {
			res = append(res, append([]intent(nil), cur...))
			return
		}
		for _, a := range alpha {
			s, c, x := sends, closes, cancels
			switch a.kind {
			case "send":
				if sends >= maxS || closes > 0 {
					continue
				}
				s++
			case "close":
				if closes > 0 {
					continue
				}
				c++
			case "cancel":
				if cancels > 0 {
					continue
				}
				x++
			}
			cur = append(cur, a)
			rec(s, c, x)
			cur = cur[:len(cur)-1]
		}
	}
	rec(0, 0, 0)
	return res
}

// ---------- value pools ----------

func distinctInput(rng *rand.Rand, n int) []int {
	xs := make([]int, 0, n)
	seen := map[int]bool{}
	for len(xs) < n {
		x := rng.Intn(40) + 1
		if !seen[x] {
			seen[x] = true
			xs = append(xs, x)
		}
	}
	return xs
}

func anyInput(rng *rand.Rand, n int) []int {
	xs := make([]int, n)
	for i := range xs {
		xs[i] = rng.Intn(12) - 2
	}
	return xs
}

func preds(rng *rand.Rand) *Pred {
	p := basePred(rng)
	if rng.Intn(4) == 0 {
		// a predicate that fails on some elements, answering (true, error) there
		p.EM, p.ER = 4, rng.Intn(4)
	}
	return p
}

func basePred(rng *rand.Rand) *Pred {
	switch rng.Intn(6) {
	case 0:
		return &Pred{Kind: "lt", C: rng.Intn(10)}
	case 1:
		return &Pred{Kind: "even"}
	case 2:
		return &Pred{Kind: "modeq", M: 3, R: rng.Intn(3)}
	case 3:
		return &Pred{Kind: "true"}
	case 4:
		return &Pred{Kind: "false"}
	}
	return &Pred{Kind: "lt", C: 5}
}

func seqStages(rng *rand.Rand) []*Stage {
	return []*Stage{
		{Kind: "map", A: rng.Intn(5) - 2, B: rng.Intn(7)},
		{Kind: "fmap", M: rng.Intn(3) + 2},
		{Kind: "filter", Pred: preds(rng)},
		{Kind: "partition", Pred: preds(rng)},
		{Kind: "take", N: rng.Intn(5)},
		{Kind: "takewhile", Pred: preds(rng)},
		{Kind: "foreach"},
		{Kind: "void"},
		{Kind: "fold", Mon: []string{"sum", "prod", "lin"}[rng.Intn(3)]},
	}
}

func nOutputs(s *Stage) int {
	switch s.Kind {
	case "map", "fmap", "partition", "unfold", "emit":
		return 2
	case "fork":
		return nOutputs(s.Inner)
	}
	return 1
}

func alphabet(s *Stage, withCancel bool) []intent {
	a := []intent{{kind: "send", i: 0}, {kind: "close", i: 0}}
	for k := 0; k < nOutputs(s); k++ {
		a = append(a, intent{kind: "recv", k: k})
	}
	if withCancel {
		a = append(a, intent{kind: "cancel"})
	}
	return a
}

func sample[T any](rng *rand.Rand, xs []T, n int) []T {
	if len(xs) <= n {
		return xs
	}
	rng.Shuffle(len(xs), func(i, j int) { xs[i], xs[j] = xs[j], xs[i] })
	return xs[:n]
}

// ---------- families ----------

func generate(family string, rng *rand.Rand, thorough bool) []plan {
	mul := 4
	if thorough {
		mul = 40
	}
	var ps []plan
	add := func(p plan) { ps = append(ps, p) }
	rnd := func(send, cls, recv, cancel, rel, slp int, sleeps []int) *random {
		return &random{rng: rng, wSend: send, wClose: cls, wRecv: recv, wCancel: cancel, wRel: rel, wSlp: slp, sleeps: sleeps}
	}

	switch family {
	case "C05":
		// sequential stages, functions that do not fail, no cancel
		for rep := 0; rep < 2*mul; rep++ {
			for _, s := range seqStages(rng) {
				for cp := 0; cp <= 3; cp++ {
					in := anyInput(rng, rng.Intn(5))
					scripts := enumScripts(alphabet(s, false), 5, len(in))
					for _, sc := range sample(rng, scripts, 3) {
						add(plan{stage: s, icaps: []int{cp}, inputs: [][]int{in}, sched: &scripted{script: sc}, maxMoves: 40, drain: true, gen: "enum5"})
					}
					for r := 0; r < 3; r++ {
						add(plan{stage: s, icaps: []int{cp}, inputs: [][]int{anyInput(rng, rng.Intn(7))}, sched: rnd(4, 2, 4, 0, 0, 0, nil), maxMoves: 30, drain: true, gen: "random"})
					}
				}
			}
		}
		// the producer is done before the stage is created (a filled, closed buffered channel, as pipe.Seq hands one
		// over), or has filled the buffer and goes on afterwards
		for rep := 0; rep < 2*mul; rep++ {
			for _, s := range seqStages(rng) {
				cp := 1 + rng.Intn(5)
				n := cp
				if rep%3 == 2 {
					n = cp + 1 + rng.Intn(3) // more than fits: the rest is sent while the stage runs
				} else if rep%3 == 1 {
					n = 1 + rng.Intn(cp)
				}
				add(plan{stage: s, icaps: []int{cp}, inputs: [][]int{anyInput(rng, n)}, sched: rnd(4, 2, 4, 0, 0, 0, nil), maxMoves: 30, drain: true, gen: "prefilled"})
			}
		}
		// Take of "everything": any n >= 0, also one no input can reach
		for rep := 0; rep < mul; rep++ {
			big := []int{1 << 31, 1<<31 - 1, 1 << 40, 1<<62 + 12345, 1<<63 - 1}[rep%5]
			for cp := 0; cp <= 2; cp++ {
				add(plan{stage: &Stage{Kind: "take", N: big}, icaps: []int{cp}, inputs: [][]int{anyInput(rng, rng.Intn(6))}, sched: rnd(4, 2, 4, 0, 0, 0, nil), maxMoves: 30, drain: true, gen: "random"})
			}
		}
		// Seq / ToSeq: identity
		for r := 0; r < 6*mul; r++ {
			xs := anyInput(rng, rng.Intn(7))
			if r%3 == 2 {
				xs = anyInput(rng, 60+rng.Intn(80)) // long sequences too: Seq takes any number of elements
			}
			add(plan{stage: &Stage{Kind: "seq", Xs: xs}, sched: rnd(0, 0, 4, 0, 0, 0, nil), maxMoves: 12, drain: true, gen: "random"})
		}
	case "C06":
		for rep := 0; rep < mul; rep++ {
			stages := seqStages(rng)
			stages = append(stages,
				&Stage{Kind: "join", N: 2},
				&Stage{Kind: "join", N: []int{0, 1, 3}[rng.Intn(3)]}, // also no input at all: the output closes at once
				// every capacity in turn (0 first: a generator's very first send already needs the consumer)
				&Stage{Kind: "unfold", N: rep % 3, Seed: rng.Intn(3), A: 2, B: 1},
				&Stage{Kind: "emit", N: (rep + 1) % 3, Freq: []int{0, 1, 3, 10}[rng.Intn(4)], A: 1, B: 0}, // also no pause at all
				&Stage{Kind: "throttle", Ops: rng.Intn(3) + 1, Freq: rng.Intn(5) + 2},
				&Stage{Kind: "map", A: 1, B: 1, Fail: &Fail{Kind: "modeq", M: 3, R: 1}, Try: rng.Intn(2) == 0},
				&Stage{Kind: "fmap", M: 3, Fail: &Fail{Kind: "modeq", M: 4, R: 1}, Try: rng.Intn(2) == 0},
				// predicates that fail on every other element (they answer (true, error) there): the stage goes on and closes
				&Stage{Kind: "partition", Pred: &Pred{Kind: "even", EM: 2, ER: rep % 2}},
				&Stage{Kind: "filter", Pred: &Pred{Kind: "lt", C: 5, EM: 2, ER: (rep + 1) % 2}},
				&Stage{Kind: "takewhile", Pred: &Pred{Kind: "true", EM: 2, ER: rep % 2}},
			)
			for _, s := range stages {
				nin := 1
				if s.Kind == "join" {
					nin = s.N
				}
				if s.Kind == "unfold" || s.Kind == "emit" {
					nin = 0
				}
				if rep%2 == 0 {
					// the context is cancelled before the stage is even created: everything still closes
					pin := make([][]int, nin)
					pic := make([]int, nin)
					var psc []intent
					for i := range pin {
						pin[i] = []int{100*i + 1}
						pic[i] = rng.Intn(2)
						psc = append(psc, intent{kind: "send", i: i}, intent{kind: "close", i: i})
					}
					if s.Kind == "emit" || s.Kind == "throttle" {
						psc = append(psc, intent{kind: "sleep", d: 3 * max(s.Freq, 1)})
					}
					add(plan{stage: s, icaps: pic, inputs: pin, sched: &scripted{script: psc}, maxMoves: 20, drain: rep%4 == 0, gen: "pre-cancelled"})
				}
				timed := s.Kind == "emit" || s.Kind == "throttle"
				slp := 0
				if timed {
					slp = 3
				}
				for cp := 0; cp <= 2; cp++ {
					icaps := make([]int, nin)
					inputs := make([][]int, nin)
					for i := range icaps {
						icaps[i] = cp
						inputs[i] = anyInput(rng, rng.Intn(5))
						for j := range inputs[i] {
							inputs[i][j] += 100 * i
						}
					}
					sl := []int{1, max(s.Freq, 1), 2 * max(s.Freq, 1)}
					// cancel anywhere, consumers active
					for r := 0; r < 3; r++ {
						add(plan{stage: s, icaps: icaps, inputs: inputs, sched: rnd(4, 2, 4, 1, 0, slp, sl), maxMoves: 25, drain: true, gen: "random+cancel"})
					}
					// no consumer at all: sends, cancel, close, then nothing
					sc := []intent{}
					for j := 0; j < rng.Intn(6); j++ {
						for i := 0; i < nin; i++ {
							sc = append(sc, intent{kind: "send", i: i})
						}
						if timed && rng.Intn(2) == 0 {
							sc = append(sc, intent{kind: "sleep", d: sl[rng.Intn(3)]})
						}
					}
					pre := rng.Intn(3)
					for j := 0; j < pre; j++ {
						sc = append(sc, intent{kind: "recv", k: 0})
					}
					if rng.Intn(2) == 0 {
						sc = append(sc, intent{kind: "cancel"})
						for i := 0; i < nin; i++ {
							sc = append(sc, intent{kind: "close", i: i})
						}
					} else {
						for i := 0; i < nin; i++ {
							sc = append(sc, intent{kind: "close", i: i})
						}
						sc = append(sc, intent{kind: "cancel"})
					}
					if s.Kind == "emit" {
						// Emit cannot be interrupted while it sleeps, and a select with both arms ready may
						// still pick the send: it is gone after at most (free capacity + 1) further periods
						// (Throttling's pacer waits in a select with ctx.Done(): it is gone at once, no time is given to it)
						sc = append(sc, intent{kind: "sleep", d: (s.N + 2) * max(s.Freq, 1)})
					}
					add(plan{stage: s, icaps: icaps, inputs: inputs, sched: &scripted{script: sc}, maxMoves: 60, drain: false, gen: "absent-consumer"})
					// enumerated short interleavings with the cancel at every position
					if nin == 1 && !timed {
						scripts := enumScripts(alphabet(s, true), 5, len(inputs[0]))
						for _, e := range sample(rng, scripts, 3) {
							add(plan{stage: s, icaps: icaps, inputs: inputs, sched: &scripted{script: e}, maxMoves: 40, drain: true, gen: "enum5+cancel"})
						}
					}
				}
			}
		}
		// a failing Lift / LiftF whose error nobody ever reads (the consumer looks at the values only): the stage has
		// reported it into its error channel, returned and closed both channels - at every capacity, 0 included
		for r := 0; r < 3*mul; r++ {
			cp := r % 3
			bad := 3*rng.Intn(3) + 1 // = 1 mod 3
			in := []int{bad, 5}
			if r%2 == 1 {
				in = []int{3, bad, 6} // a good element first
			}
			var st *Stage
			if r%4 < 2 {
				st = &Stage{Kind: "map", A: 1, B: 1, Fail: &Fail{Kind: "modeq", M: 3, R: 1}}
			} else {
				st = &Stage{Kind: "fmap", M: 3, Fail: &Fail{Kind: "modeq", M: 3, R: 1}}
			}
			var sc []intent
			for range in {
				sc = append(sc, intent{kind: "send", i: 0}, intent{kind: "recv", k: 0}, intent{kind: "recv", k: 0})
			}
			sc = append(sc, intent{kind: "recv", k: 0}, intent{kind: "close", i: 0}, intent{kind: "cancel"})
			add(plan{stage: st, icaps: []int{cp}, inputs: [][]int{in}, sched: &scripted{script: sc}, maxMoves: 40, drain: false, gen: "absent-consumer"})
		}
		// Emit under Try whose function fails for ever from some index on (an exhausted source): after the cancel the
		// error path must notice it too - the goroutine exits and both channels close, errors read or not
		for r := 0; r < 6*mul; r++ {
			freq := []int{1, 3}[rng.Intn(2)]
			k := rng.Intn(3)
			ecap := rng.Intn(3)
			var sc []intent
			for j := 0; j < k+2; j++ {
				sc = append(sc, intent{kind: "sleep", d: freq}, intent{kind: "recv", k: 0}, intent{kind: "recv", k: 1})
			}
			sc = append(sc, intent{kind: "cancel"}, intent{kind: "sleep", d: (ecap + 3) * freq})
			add(plan{stage: &Stage{Kind: "emit", N: ecap, Freq: freq, A: 1, B: 0, Fail: &Fail{Kind: "ge", M: k}, Try: true}, sched: &scripted{script: sc}, maxMoves: 40, drain: r%2 == 0, gen: "absent-consumer"})
		}
	case "C07":
		// every subset of failing positions for short inputs, all four modes
		maxLen := 4
		if thorough {
			maxLen = 5
		}
		for _, kind := range []string{"map", "fmap"} {
			for _, try := range []bool{false, true} {
				for n := 0; n <= maxLen; n++ {
					for mask := 0; mask < 1<<n; mask++ {
						in := distinctInput(rng, n)
						var bad []int
						for j := 0; j < n; j++ {
							if mask>>j&1 == 1 {
								bad = append(bad, in[j])
							}
						}
						s := &Stage{Kind: kind, A: 2, B: 1, M: 3, Fail: &Fail{Kind: "in", Xs: bad}, Try: try}
						cp := rng.Intn(3)
						add(plan{stage: s, icaps: []int{cp}, inputs: [][]int{in}, sched: rnd(4, 2, 3, 0, 0, 0, nil), maxMoves: 20, drain: true, gen: "subset"})
					}
				}
				for r := 0; r < 12*mul; r++ {
					in := anyInput(rng, 5+rng.Intn(8))
					s := &Stage{Kind: kind, A: 1, B: 3, M: 3, Fail: &Fail{Kind: "modeq", M: rng.Intn(3) + 2, R: rng.Intn(2)}, Try: try}
					add(plan{stage: s, icaps: []int{rng.Intn(3)}, inputs: [][]int{in}, sched: rnd(4, 1, 3, 0, 0, 0, nil), maxMoves: 60, drain: true, gen: "random-long"})
				}
			}
		}
		for r := 0; r < 20*mul; r++ {
			try := rng.Intn(2) == 0
			fl := &Fail{Kind: "modeq", M: rng.Intn(3) + 2, R: rng.Intn(2)}
			add(plan{stage: &Stage{Kind: "emit", N: rng.Intn(3), Freq: []int{1, 3}[rng.Intn(2)], A: 1, B: 0, Fail: fl, Try: try}, sched: rnd(0, 0, 4, 0, 0, 3, []int{1, 3}), maxMoves: 30, drain: true, gen: "random-timed"})
			add(plan{stage: &Stage{Kind: "unfold", N: rng.Intn(3), Seed: rng.Intn(3), A: 1, B: 1, Fail: &Fail{Kind: "in", Xs: []int{rng.Intn(6) + 1}}, Try: false}, sched: rnd(0, 0, 4, 0, 0, 0, nil), maxMoves: 30, drain: true, gen: "random"})
			// Unfold under Try: the failing seed is delivered, its error reported, and the sequence goes on from what
			// the function returned together with the error (the zero value), never from the failed seed again
			add(plan{stage: &Stage{Kind: "unfold", N: rng.Intn(3), Seed: 1 + rng.Intn(3), A: 1, B: 1, Fail: &Fail{Kind: "in", Xs: []int{rng.Intn(4) + 2}}, Try: true}, sched: rnd(0, 0, 4, 0, 0, 0, nil), maxMoves: 30, drain: true, gen: "random"})
		}
		// StdErr: reads every error until the channel closes and logs the non-nil ones (0 = nil); it takes no
		// context, so a cancel does not concern it
		for r := 0; r < 16*mul; r++ {
			in := make([]int, rng.Intn(7))
			for j := range in {
				in[j] = rng.Intn(5)
			}
			wc := 0
			if r%4 == 0 {
				wc = 1
			}
			add(plan{stage: &Stage{Kind: "stderr"}, icaps: []int{rng.Intn(3)}, inputs: [][]int{in}, sched: rnd(4, 1, 0, wc, 0, 0, nil), maxMoves: 20, drain: r%5 != 4, gen: "random"})
		}
	case "C09":
		for rep := 0; rep < mul; rep++ {
			for _, par := range []int{1, 2, 3, 4, 7} {
				inners := []*Stage{
					{Kind: "map", A: 2, B: 1},
					{Kind: "map", A: 1, B: 0, Fail: &Fail{Kind: "modeq", M: 3, R: rng.Intn(3)}, Try: true},
					{Kind: "fmap", M: 3},
					{Kind: "fmap", M: 2, Fail: &Fail{Kind: "modeq", M: 4, R: rng.Intn(4)}, Try: true},
					{Kind: "filter", Pred: preds(rng)},
					{Kind: "partition", Pred: preds(rng)},
					{Kind: "foreach"},
					{Kind: "foreach", Fail: &Fail{Kind: "modeq", M: 2, R: rng.Intn(2)}, Try: rng.Intn(2) == 0},
					{Kind: "void"},
				}
				for _, inner := range inners {
					for _, gate := range []bool{true, false} {
						if gate && inner.Kind == "void" {
							continue
						}
						for _, n := range []int{rng.Intn(par + 1), par, par + 1 + rng.Intn(4)} {
							s := &Stage{Kind: "fork", Par: par, Gate: gate, Inner: inner}
							wc := 0
							if rng.Intn(3) == 0 && par < 7 {
								// (seven workers in the middle of their sends when the cancel arrives: the trace
								// acceptance explores too many interleavings; cancel is exercised with fewer workers)
								wc = 1
							}
							add(plan{stage: s, icaps: []int{rng.Intn(3)}, inputs: [][]int{distinctInput(rng, n)}, sched: rnd(4, 2, 3, wc, 4, 0, nil), maxMoves: 40, drain: true, gen: "random"})
						}
					}
				}
			}
		}
		// every fork stage with a consumer that never comes: more elements than the outputs can hold are handed over,
		// every in-flight call completes, the workers are parked in their sends when the cancel arrives (before or after
		// the close of the input) - all of them exit and everything closes
		for rep := 0; rep < 2*mul; rep++ {
			for _, par := range []int{1, 2, 3} {
				for _, inner := range []*Stage{
					{Kind: "map", A: 2, B: 1}, {Kind: "fmap", M: 2}, {Kind: "filter", Pred: &Pred{Kind: "true"}},
					{Kind: "partition", Pred: preds(rng)}, {Kind: "foreach"}, {Kind: "void"},
					{Kind: "map", A: 1, B: 0, Fail: &Fail{Kind: "modeq", M: 2, R: 0}, Try: true},
				} {
					gate := rep%2 == 0 && inner.Kind != "void"
					n := 2*par + 2 + rng.Intn(3)
					in := distinctInput(rng, n)
					var sc []intent
					for j := 0; j < n; j++ {
						sc = append(sc, intent{kind: "send", i: 0})
						if gate {
							sc = append(sc, intent{kind: "release-any", i: rng.Intn(4)})
						}
					}
					for j := 0; j < 2*n && gate; j++ {
						sc = append(sc, intent{kind: "release-any", i: rng.Intn(4)})
					}
					if rng.Intn(2) == 0 {
						sc = append(sc, intent{kind: "cancel"}, intent{kind: "close", i: 0})
					} else {
						sc = append(sc, intent{kind: "close", i: 0}, intent{kind: "cancel"})
					}
					for j := 0; j < 2*n && gate; j++ {
						sc = append(sc, intent{kind: "release-any", i: rng.Intn(4)})
					}
					add(plan{stage: &Stage{Kind: "fork", Par: par, Gate: gate, Inner: inner}, icaps: []int{n}, inputs: [][]int{in}, sched: &scripted{script: sc}, maxMoves: 100, drain: false, gen: "absent-consumer"})
				}
			}
		}
		// fail-fast (Lift / LiftF) inside fork.Map / fork.FMap with SEVERAL failing elements: every worker that meets
		// one sends its error with a plain `exx <- err` and returns. Nothing may block, leak or stay open - whether
		// the errors are read (random schedules, drained) or nobody ever receives again (absent consumer + cancel).
		for rep := 0; rep < 3*mul; rep++ {
			for _, par := range []int{1, 2, 3, 4} {
				for _, kind := range []string{"map", "fmap"} {
					n := par + 1 + rng.Intn(4)
					in := distinctInput(rng, n)
					nbad := 1 + rng.Intn(par+1)
					bad := append([]int(nil), in...)
					rng.Shuffle(len(bad), func(i, j int) { bad[i], bad[j] = bad[j], bad[i] })
					bad = bad[:min(nbad, len(bad))]
					inner := &Stage{Kind: kind, A: 1, B: 0, M: 2, Fail: &Fail{Kind: "in", Xs: bad}, Try: false}
					for _, gate := range []bool{true, false} {
						s := &Stage{Kind: "fork", Par: par, Gate: gate, Inner: inner}
						add(plan{stage: s, icaps: []int{rng.Intn(3)}, inputs: [][]int{in}, sched: rnd(4, 2, 3, rep%2, 4, 0, nil), maxMoves: 40, drain: true, gen: "failfast-random"})
						// absent consumer: hand everything over, let every in-flight call complete, close, cancel - no receive
						var sc []intent
						for j := 0; j < n; j++ {
							sc = append(sc, intent{kind: "send", i: 0})
							if gate {
								sc = append(sc, intent{kind: "release-any", i: rng.Intn(4)})
							}
						}
						for j := 0; j < 2*n && gate; j++ {
							sc = append(sc, intent{kind: "release-any", i: rng.Intn(4)})
						}
						if rng.Intn(2) == 0 {
							sc = append(sc, intent{kind: "cancel"}, intent{kind: "close", i: 0})
						} else {
							sc = append(sc, intent{kind: "close", i: 0}, intent{kind: "cancel"})
						}
						for j := 0; j < 2*n && gate; j++ {
							sc = append(sc, intent{kind: "release-any", i: rng.Intn(4)})
						}
						add(plan{stage: s, icaps: []int{n}, inputs: [][]int{in}, sched: &scripted{script: sc}, maxMoves: 80, drain: false, gen: "absent-consumer"})
					}
				}
			}
		}
	case "C11":
		for rep := 0; rep < 40*mul; rep++ {
			freq := []int{1, 3, 10}[rng.Intn(3)]
			fl := (*Fail)(nil)
			try := false
			if rng.Intn(3) == 0 {
				fl = &Fail{Kind: "modeq", M: rng.Intn(3) + 2, R: rng.Intn(2)}
				try = true
			}
			wc := rng.Intn(2)
			add(plan{stage: &Stage{Kind: "emit", N: rng.Intn(4), Freq: freq, A: rng.Intn(3) + 1, B: rng.Intn(4), Fail: fl, Try: try}, sched: rnd(0, 0, 4, wc, 0, 3, []int{1, freq, freq - 1 + 1, 2 * freq}), maxMoves: 40, drain: true, gen: "random-timed"})
			// the consumer that keeps up: sleep one tick period, receive
			var sc []intent
			for j := 0; j < 8; j++ {
				sc = append(sc, intent{kind: "sleep", d: freq}, intent{kind: "recv", k: 0}, intent{kind: "recv", k: 0})
			}
			add(plan{stage: &Stage{Kind: "emit", N: rng.Intn(4), Freq: freq, A: 2, B: 1}, sched: &scripted{script: sc}, maxMoves: 40, drain: true, gen: "keeps-up"})
			add(plan{stage: &Stage{Kind: "unfold", N: rng.Intn(4), Seed: rng.Intn(5), A: rng.Intn(2) + 1, B: rng.Intn(3) + 1}, sched: rnd(0, 0, 5, wc, 0, 0, nil), maxMoves: 30, drain: true, gen: "random"})
			if rep%4 == 0 {
				// under Try a failing step is reported and the sequence goes on from what the function returned (zero)
				add(plan{stage: &Stage{Kind: "unfold", N: rng.Intn(3), Seed: 1 + rng.Intn(3), A: 1, B: 1, Fail: &Fail{Kind: "in", Xs: []int{rng.Intn(4) + 2}}, Try: true}, sched: rnd(0, 0, 4, wc, 0, 0, nil), maxMoves: 30, drain: true, gen: "random"})
			}
			// absent consumer: a few receives (or none), cancel, and nobody receives again
			ucap := rng.Intn(3)
			var ab []intent
			for j := 0; j < rng.Intn(3); j++ {
				ab = append(ab, intent{kind: "recv", k: 0})
			}
			ab = append(ab, intent{kind: "cancel"})
			add(plan{stage: &Stage{Kind: "unfold", N: ucap, Seed: rng.Intn(5), A: 2, B: 1}, sched: &scripted{script: ab}, maxMoves: 10, drain: false, gen: "absent-consumer"})
			if rep%5 == 0 {
				add(plan{stage: &Stage{Kind: "unfold", N: rng.Intn(3), Seed: rng.Intn(5), A: 1, B: 1}, sched: &scripted{script: []intent{{kind: "recv", k: 0}, {kind: "recv", k: 1}}}, maxMoves: 6, drain: rep%10 == 0, gen: "pre-cancelled"})
				add(plan{stage: &Stage{Kind: "emit", N: rng.Intn(3), Freq: freq, A: 1, B: 0}, sched: &scripted{script: []intent{{kind: "sleep", d: 3 * freq}, {kind: "recv", k: 0}}}, maxMoves: 6, drain: false, gen: "pre-cancelled"})
				// frequencies that divide nothing round (7 ticks) and the degenerate frequency 0 (no pause at all; the
				// consumer's pace is then the only brake, so no Try failures here)
				var ks []intent
				for j := 0; j < 5; j++ {
					ks = append(ks, intent{kind: "sleep", d: 7}, intent{kind: "recv", k: 0}, intent{kind: "recv", k: 0})
				}
				add(plan{stage: &Stage{Kind: "emit", N: rng.Intn(3), Freq: 7, A: 2, B: 1}, sched: &scripted{script: ks}, maxMoves: 40, drain: true, gen: "keeps-up"})
				add(plan{stage: &Stage{Kind: "emit", N: rng.Intn(3), Freq: 0, A: 1, B: 0}, sched: rnd(0, 0, 4, 1, 0, 0, nil), maxMoves: 12, drain: true, gen: "random"})
			}
			// after the cancel the consumer parks in a blocking receive and takes whatever comes: the generator must
			// notice the cancel although its send never has to wait
			var pk []intent
			for j := 0; j < rng.Intn(4); j++ {
				pk = append(pk, intent{kind: "recv", k: 0})
			}
			pk = append(pk, intent{kind: "cancel"}, intent{kind: "park", k: 0}, intent{kind: "park", k: 1})
			add(plan{stage: &Stage{Kind: "unfold", N: rng.Intn(3), Seed: rng.Intn(5), A: 1, B: 1}, sched: &scripted{script: pk}, maxMoves: 12, drain: false, gen: "parked-consumer"})
			// fail-fast (Lift) function failing at some point, nobody reading the error channel: the generator hands
			// its error over with a plain send, returns and closes both channels - whatever the capacity - before
			// or after the cancel
			fk := rng.Intn(4)
			var fb []intent
			for j := 0; j < fk+2; j++ {
				fb = append(fb, intent{kind: "recv", k: 0})
			}
			fb = append(fb, intent{kind: "cancel"})
			useed := rng.Intn(5)
			add(plan{stage: &Stage{Kind: "unfold", N: rng.Intn(3), Seed: useed, A: 1, B: 1, Fail: &Fail{Kind: "in", Xs: []int{useed + fk}}, Try: false}, sched: &scripted{script: fb}, maxMoves: 12, drain: false, gen: "absent-consumer"})
			var gb []intent
			for j := 0; j < fk+2; j++ {
				gb = append(gb, intent{kind: "sleep", d: freq}, intent{kind: "recv", k: 0})
			}
			gcap := rng.Intn(3)
			gb = append(gb, intent{kind: "cancel"}, intent{kind: "sleep", d: (gcap + 2) * freq})
			add(plan{stage: &Stage{Kind: "emit", N: gcap, Freq: freq, A: 1, B: 0, Fail: &Fail{Kind: "in", Xs: []int{fk}}, Try: false}, sched: &scripted{script: gb}, maxMoves: 30, drain: false, gen: "absent-consumer"})
			ecap := rng.Intn(3)
			eb := []intent{{kind: "sleep", d: freq * rng.Intn(3)}}
			for j := 0; j < rng.Intn(2); j++ {
				eb = append(eb, intent{kind: "recv", k: 0})
			}
			eb = append(eb, intent{kind: "cancel"}, intent{kind: "sleep", d: (ecap + 2) * freq})
			add(plan{stage: &Stage{Kind: "emit", N: ecap, Freq: freq, A: 1, B: 0}, sched: &scripted{script: eb}, maxMoves: 10, drain: false, gen: "absent-consumer"})
		}
	case "C12":
		for rep := 0; rep < 12*mul; rep++ {
			for n := 0; n <= 7; n++ {
				if n > 4 && rep%3 != 0 {
					continue // many inputs: fewer and shorter cases (any number of inputs, not only the tested 0..4)
				}
				icaps := make([]int, n)
				inputs := make([][]int, n)
				for i := range icaps {
					icaps[i] = rng.Intn(3)
					inputs[i] = anyInput(rng, rng.Intn(5))
					if n > 4 {
						inputs[i] = anyInput(rng, 1+rng.Intn(2))
					}
					for j := range inputs[i] {
						inputs[i][j] = 100*i + j
					}
				}
				s := &Stage{Kind: "join", N: n}
				add(plan{stage: s, icaps: icaps, inputs: inputs, sched: rnd(4, 1, 3, 0, 0, 0, nil), maxMoves: 50, drain: true, gen: "random"})
				add(plan{stage: s, icaps: icaps, inputs: inputs, sched: &random{rng: rng, wSend: 4, wClose: 1, wRecv: 3, closeEarly: true}, maxMoves: 50, drain: true, gen: "random-early-close"})
			}
		}
		for rep := 0; rep < 4*mul; rep++ {
			// a producer far ahead of the consumer: everything one input can take is sent before anything is received,
			// then the consumer takes it all - nothing lost, nothing invented, per-input order kept
			n := 1 + rep%2
			icaps := make([]int, n)
			inputs := make([][]int, n)
			var sc []intent
			for i := range icaps {
				icaps[i] = rng.Intn(4)
				inputs[i] = make([]int, 8+rng.Intn(8))
				for j := range inputs[i] {
					inputs[i][j] = 100*i + j + 1
				}
			}
			for j := 0; j < 16; j++ {
				for i := 0; i < n; i++ {
					sc = append(sc, intent{kind: "send", i: i})
				}
			}
			for j := 0; j < 6; j++ {
				sc = append(sc, intent{kind: "recv", k: 0})
			}
			add(plan{stage: &Stage{Kind: "join", N: n}, icaps: icaps, inputs: inputs, sched: &scripted{script: sc}, maxMoves: 60, drain: true, gen: "producer-ahead"})
			// very many inputs (any number of them): all but one end at once, the output stays open for the one
			// that is left, delivers what it sends and closes with it
			wide := []int{17, 18, 24, 40}[rep%4]
			wcaps := make([]int, wide)
			winputs := make([][]int, wide)
			open := rng.Intn(wide)
			winputs[open] = []int{100 * open, 100*open + 1, 100*open + 2} // the oracle reads the input of a value off its hundreds
			var wsc []intent
			for _, i := range rng.Perm(wide) {
				if i != open {
					wsc = append(wsc, intent{kind: "close", i: i})
				}
			}
			wsc = append(wsc, intent{kind: "recv", k: 0})
			for j := 0; j < 3; j++ {
				wsc = append(wsc, intent{kind: "send", i: open}, intent{kind: "recv", k: 0})
			}
			wsc = append(wsc, intent{kind: "recv", k: 0}, intent{kind: "close", i: open}, intent{kind: "recv", k: 0})
			add(plan{stage: &Stage{Kind: "join", N: wide}, icaps: wcaps, inputs: winputs, sched: &scripted{script: wsc}, maxMoves: 80, drain: true, gen: "many-inputs"})
		}
	case "C13":
		for rep := 0; rep < 50*mul; rep++ {
			ops := rng.Intn(4) + 1
			iv := rng.Intn(9) + 2
			cp := rng.Intn(4)
			in := make([]int, 3+rng.Intn(10))
			for j := range in {
				in[j] = j + 1
			}
			s := &Stage{Kind: "throttle", Ops: ops, Freq: iv}
			add(plan{stage: s, icaps: []int{cp}, inputs: [][]int{in}, sched: rnd(4, 1, 4, 0, 0, 2, []int{1, iv, iv / 2, 3 * iv}), maxMoves: 60, drain: true, gen: "random-timed"})
			// idle period then burst: sleep long, then send and receive as fast as possible
			sc := []intent{{kind: "sleep", d: 3 * iv}}
			for j := 0; j < len(in); j++ {
				sc = append(sc, intent{kind: "send", i: 0}, intent{kind: "recv", k: 0}, intent{kind: "recv", k: 0})
			}
			add(plan{stage: s, icaps: []int{cp}, inputs: [][]int{in}, sched: &scripted{script: sc}, maxMoves: 80, drain: true, gen: "idle-then-burst"})
			// the consumer stalls while input is available (the input buffer, the token bucket and everything in
			// between fill up), then drains as fast as it can
			var stl []intent
			for j := 0; j < len(in); j++ {
				stl = append(stl, intent{kind: "send", i: 0})
			}
			stl = append(stl, intent{kind: "sleep", d: (cp/ops + 4) * iv})
			for j := 0; j < 3*len(in); j++ {
				stl = append(stl, intent{kind: "send", i: 0}, intent{kind: "recv", k: 0})
			}
			add(plan{stage: s, icaps: []int{cp}, inputs: [][]int{in}, sched: &scripted{script: stl}, maxMoves: 200, drain: true, gen: "idle-then-burst: consumer stall"})
			// everything delivered, a long silence, then the input closes: the output closes with it
			var idc []intent
			few := in[:min(len(in), 3)]
			for j := 0; j < len(few); j++ {
				idc = append(idc, intent{kind: "send", i: 0}, intent{kind: "sleep", d: iv}, intent{kind: "recv", k: 0})
			}
			idc = append(idc, intent{kind: "sleep", d: 5 * iv}, intent{kind: "close", i: 0}, intent{kind: "sleep", d: 1}, intent{kind: "recv", k: 0})
			add(plan{stage: s, icaps: []int{cp}, inputs: [][]int{few}, sched: &scripted{script: idc}, maxMoves: 60, drain: false, gen: "idle-then-close"})
			// steady: input always available, consumer always ready; one virtual tick per round
			var st []intent
			for r := 0; r < (len(in)/ops+2)*iv; r++ {
				for j := 0; j < ops+cp+2; j++ {
					st = append(st, intent{kind: "send", i: 0}, intent{kind: "recv", k: 0})
				}
				st = append(st, intent{kind: "sleep", d: 1})
			}
			add(plan{stage: s, icaps: []int{cp}, inputs: [][]int{in}, sched: &scripted{script: st}, maxMoves: 4000, drain: true, gen: "steady"})
		}
	default:
		panic("unknown family " + family)
	}
	return ps
}

// replayPlans rebuilds scripted schedules from recorded cases (one JSON case per line)
func replayPlans(path string) []plan {
	f, err := os.Open(path)
	if err != nil {
		panic(err)
	}
	defer f.Close()
	var ps []plan
	sc := bufio.NewScanner(f)
	sc.Buffer(make([]byte, 1<<20), 1<<26)
	for sc.Scan() {
		var c Case
		if err := json.Unmarshal(sc.Bytes(), &c); err != nil {
			panic(fmt.Sprintf("replay: %v", err))
		}
		var script []intent
		for _, m := range c.Moves {
			switch m.M {
			case "send":
				script = append(script, intent{kind: "send", i: m.I})
			case "close":
				script = append(script, intent{kind: "close", i: m.I})
			case "recv":
				script = append(script, intent{kind: "recv", k: m.K})
			case "cancel":
				script = append(script, intent{kind: "cancel"})
			case "release":
				script = append(script, intent{kind: "release", i: m.A})
			case "sleep":
				script = append(script, intent{kind: "sleep", d: m.D})
			}
		}
		ps = append(ps, plan{stage: c.Stage, icaps: c.ICaps, inputs: c.Inputs, sched: &scripted{script: script}, maxMoves: len(script) + 1, drain: false, gen: "replay"})
	}
	return ps
}
