// Package pool is the correspondence harness of the Pool family (C05 C06 C07 C09 C11 C12 C13):
// it drives the real stages of github.com/fogfish/golem/pipe/v2 step by step under
// testing/synctest and records, for every environment move, what the real code did.
package pool

import (
	"context"
	"fmt"
	"log/slog"
	"sync"
	"time"

	"github.com/fogfish/golem/pipe/v2"
	"github.com/fogfish/golem/pipe/v2/fork"
	"github.com/fogfish/golem/pure/monoid"
)

// Fail is a coded failure predicate on the element
type Fail struct {
	Kind string `json:"kind"` // none | modeq | in | ge
	M    int    `json:"m,omitempty"`
	R    int    `json:"r,omitempty"`
	Xs   []int  `json:"xs,omitempty"`
}

func (f Fail) fails(x int) bool {
	switch f.Kind {
	case "modeq":
		return mod(x, f.M) == f.R
	case "in":
		for _, y := range f.Xs {
			if x == y {
				return true
			}
		}
	case "ge":
		return x >= f.M // fails for ever from some point on (an exhausted source)
	}
	return false
}

// Pred is a coded predicate
type Pred struct {
	Kind string `json:"kind"` // lt | even | modeq | true | false
	C    int    `json:"c,omitempty"`
	M    int    `json:"m,omitempty"`
	R    int    `json:"r,omitempty"`
	// the predicate FAILS on x when x mod EM == ER (EM > 0): it then answers (true, error) - an element whose
	// predicate failed is not taken, whatever the boolean says
	EM int `json:"em,omitempty"`
	ER int `json:"er,omitempty"`
}

func (p Pred) fails(x int) bool { return p.EM > 0 && mod(x, p.EM) == p.ER }

func (p Pred) apply(x int) bool {
	switch p.Kind {
	case "lt":
		return x < p.C
	case "even":
		return mod(x, 2) == 0
	case "modeq":
		return mod(x, p.M) == p.R
	case "true":
		return true
	}
	return false
}

// mathematical modulo (as Z.modulo for positive m)
func mod(x, m int) int {
	r := x % m
	if r < 0 {
		r += m
	}
	return r
}

// Stage is a coded stage (mirrors Check/PoolCodes.v stage_code)
type Stage struct {
	Kind  string `json:"kind"`
	A     int    `json:"a,omitempty"` // affine a*x+b
	B     int    `json:"b,omitempty"`
	Fail  *Fail  `json:"fail,omitempty"`
	Try   bool   `json:"try,omitempty"`
	M     int    `json:"m,omitempty"` // arrow modulus
	Pred  *Pred  `json:"pred,omitempty"`
	N     int    `json:"n,omitempty"`   // take n / join n
	Mon   string `json:"mon,omitempty"` // sum | prod | lin
	Seed  int    `json:"seed,omitempty"`
	Freq  int    `json:"freq,omitempty"` // ticks (1 tick = 1ms of virtual time)
	Ops   int    `json:"ops,omitempty"`
	Par   int    `json:"par,omitempty"`
	Gate  bool   `json:"gate,omitempty"`
	Inner *Stage `json:"inner,omitempty"` // fork
	Xs    []int  `json:"xs,omitempty"`    // seq
	Slow  int    `json:"-"`               // free-running runs only: the user function takes this many microseconds

	exx chan error // stderr: the error channel the driver feeds instead of input 0
}

type errVal int

func (e errVal) Error() string { return fmt.Sprintf("E%d", int(e)) }

// Two thirds of the faults wrap a context error (a per-element timeout, a cancelled sub-request) although the
// stage's own context is alive: a fault is a fault whatever its value is.
func (e errVal) Unwrap() error {
	switch int(e) % 3 {
	case 0:
		return context.DeadlineExceeded
	case 1:
		return context.Canceled
	}
	return nil
}

const tick = 100 * time.Microsecond // one virtual tick: frequencies and intervals are sub-millisecond and not whole milliseconds

// slog handler recording the errors pipe.StdErr logs
type logRec struct{ c *calls }

func (h *logRec) Enabled(context.Context, slog.Level) bool { return true }
func (h *logRec) Handle(_ context.Context, r slog.Record) error {
	v := -1
	r.Attrs(func(a slog.Attr) bool {
		if e, ok := a.Value.Any().(errVal); ok {
			v = int(e)
		}
		return true
	})
	h.c.enter(v)
	return nil
}
func (h *logRec) WithAttrs([]slog.Attr) slog.Handler { return h }
func (h *logRec) WithGroup(string) slog.Handler      { return h }

// the lifted values shared by all stages of the process, and the functions they currently stand for
var (
	curEither   func(int) (int, error)
	curArrow    func(context.Context, int, chan<- int) error
	sharedLift  = pipe.Lift(func(x int) (int, error) { return curEither(x) })
	sharedPure  = pipe.Pure(func(x int) int { v, _ := curEither(x); return v })
	sharedTry   = pipe.Try(func(x int) (int, error) { return curEither(x) })
	sharedLiftF = pipe.LiftF(func(ctx context.Context, x int, out chan<- int) error { return curArrow(ctx, x, out) })
	sharedTryF  = pipe.TryF(func(ctx context.Context, x int, out chan<- int) error { return curArrow(ctx, x, out) })
)

// recorder of user-function calls and gates
type calls struct {
	decoy bool // the recorder of the second instance (which never gets an element), or of a free-running run (whose
	// goroutines may outlive the run: they get lifted values of their own)
	mu     sync.Mutex
	start  time.Time
	at     []int // time of each call, in ticks since start (virtual under synctest)
	seen   []int
	gated  bool
	gates  map[int]chan struct{}
	parked []int
	// checks of caller-owned memory, run when the case ends: a non-empty answer says what the stage did to it
	memcheck []func() string
}

func (c *calls) enter(x int) {
	c.mu.Lock()
	c.seen = append(c.seen, x)
	c.at = append(c.at, int(time.Since(c.start)/tick))
	var g chan struct{}
	if c.gated {
		g = make(chan struct{})
		c.gates[x] = g
		c.parked = append(c.parked, x)
	}
	c.mu.Unlock()
	if g != nil {
		<-g
	}
}

func (c *calls) release(x int) bool {
	c.mu.Lock()
	defer c.mu.Unlock()
	g, ok := c.gates[x]
	if !ok {
		return false
	}
	delete(c.gates, x)
	for i, y := range c.parked {
		if y == x {
			c.parked = append(c.parked[:i], c.parked[i+1:]...)
			break
		}
	}
	close(g)
	return true
}

func (c *calls) parkedNow() []int {
	c.mu.Lock()
	defer c.mu.Unlock()
	return append([]int(nil), c.parked...)
}

// an output as the driver sees it: non-blocking receive
type output struct {
	try  func() (v int, closed bool, got bool)
	wait func() (v int, closed bool) // blocking receive: the consumer is parked in `<-ch` when the stage gets to its send
	cap  int
}

func outInt(ch <-chan int) output {
	return output{cap: cap(ch), wait: func() (int, bool) {
		v, ok := <-ch
		return v, !ok
	}, try: func() (int, bool, bool) {
		select {
		case v, ok := <-ch:
			if !ok {
				return 0, true, true
			}
			return v, false, true
		default:
			return 0, false, false
		}
	}}
}

func outErr(ch <-chan error) output {
	return output{cap: cap(ch), wait: func() (int, bool) {
		e, ok := <-ch
		if !ok {
			return 0, true
		}
		if ev, isv := e.(errVal); isv {
			return int(ev), false
		}
		return -1, false
	}, try: func() (int, bool, bool) {
		select {
		case e, ok := <-ch:
			if !ok {
				return 0, true, true
			}
			if ev, isv := e.(errVal); isv {
				return int(ev), false, true
			}
			return -1, false, true
		default:
			return 0, false, false
		}
	}}
}

func outUnit(ch <-chan struct{}) output {
	return output{cap: cap(ch), try: func() (int, bool, bool) {
		select {
		case _, ok := <-ch:
			if !ok {
				return 0, true, true
			}
			return 0, false, true
		default:
			return 0, false, false
		}
	}}
}

func (s *Stage) eitherE(c *calls) func(int) (int, error) {
	return func(x int) (int, error) {
		c.enter(x)
		if s.Slow > 0 {
			time.Sleep(time.Duration(s.Slow) * time.Microsecond)
		}
		if s.Fail != nil && s.Fail.fails(x) {
			return 0, errVal(1000 + x)
		}
		return s.A*x + s.B, nil
	}
}

func (s *Stage) predE(c *calls) func(int) (bool, error) {
	return func(x int) (bool, error) {
		c.enter(x)
		if s.Pred.fails(x) {
			return true, errVal(1000 + x)
		}
		return s.Pred.apply(x), nil
	}
}

func (s *Stage) arrow(c *calls) func(context.Context, int, chan<- int) error {
	return func(ctx context.Context, x int, out chan<- int) error {
		c.enter(x)
		if s.Fail != nil && s.Fail.fails(x) {
			return errVal(1000 + x)
		}
		for j := 0; j < mod(x, s.M); j++ {
			select {
			case out <- 10*x + j:
			case <-ctx.Done():
				return nil
			}
		}
		return nil
	}
}

func (s *Stage) monoid() monoid.Monoid[int] {
	switch s.Mon {
	case "prod":
		return monoid.FromOp(1, func(a, b int) int { return a * b })
	case "lin":
		return monoid.FromOp(0, func(a, b int) int { return 3*a + b })
	}
	return monoid.FromOp(0, func(a, b int) int { return a + b })
}

// build starts the real stage; returns its outputs
func build(ctx context.Context, s *Stage, ins []chan int, c *calls) []output {
	roIns := make([]<-chan int, len(ins))
	for i := range ins {
		roIns[i] = ins[i]
	}
	// A lifted function is a value: the SAME pipe.Lift / pipe.Try (LiftF / TryF) value drives every stage of the whole
	// process (it forwards to the function of the case at hand). Nothing of one stage's run may stick to it.
	lift := func(f func(int) (int, error)) pipe.F[int, int] {
		// a function that cannot fail is lifted with pipe.Pure in every other stage (a function of the stage's
		// parameters, so that a replay lifts it the same way): for the stage it is a Lift that never reports
		usePure := !s.Try && (s.Fail == nil || s.Fail.Kind == "" || s.Fail.Kind == "none") && s.Kind != "foreach" && (s.A+s.B+s.N+s.Seed+s.Freq)%2 == 0
		if c.decoy {
			if usePure {
				return pipe.Pure(func(x int) int { v, _ := f(x); return v })
			}
			if s.Try {
				return pipe.Try(f)
			}
			return pipe.Lift(f)
		}
		curEither = f
		if usePure {
			return sharedPure
		}
		if s.Try {
			return sharedTry
		}
		return sharedLift
	}
	switch s.Kind {
	case "map":
		o, e := pipe.Map(ctx, roIns[0], lift(s.eitherE(c)))
		return []output{outInt(o), outErr(e)}
	case "fmap":
		var ff pipe.FF[int, int]
		if s.Try {
			ff = pipe.TryF(s.arrow(c))
			if !c.decoy {
				curArrow = s.arrow(c)
				ff = sharedTryF
			}
		} else {
			ff = pipe.LiftF(s.arrow(c))
			if !c.decoy {
				curArrow = s.arrow(c)
				ff = sharedLiftF
			}
		}
		o, e := pipe.FMap(ctx, roIns[0], ff)
		return []output{outInt(o), outErr(e)}
	case "filter":
		return []output{outInt(pipe.Filter(ctx, roIns[0], pipe.Lift(s.predE(c))))}
	case "partition":
		l, r := pipe.Partition(ctx, roIns[0], pipe.Lift(s.predE(c)))
		return []output{outInt(l), outInt(r)}
	case "take":
		return []output{outInt(pipe.Take(ctx, roIns[0], s.N))}
	case "takewhile":
		return []output{outInt(pipe.TakeWhile(ctx, roIns[0], pipe.Lift(s.predE(c))))}
	case "foreach":
		// ForEach ignores what its function returns - also an error, under Lift as under Try
		fe := func(x int) (int, error) {
			c.enter(x)
			if s.Fail != nil && s.Fail.fails(x) {
				return 0, errVal(1000 + x)
			}
			return x, nil
		}
		return []output{outUnit(pipe.ForEach(ctx, roIns[0], lift(fe)))}
	case "void":
		return []output{outUnit(pipe.Void(ctx, roIns[0]))}
	case "fold":
		return []output{outInt(pipe.Fold(ctx, roIns[0], s.monoid()))}
	case "join":
		// the caller may reuse the slice it spreads into the variadic parameter as soon as Join has returned
		// - it puts other channels there, which nobody feeds, and they are still there when the case ends: the slice
		// is the caller's, the stage neither reads it late nor writes to it
		args := append([]<-chan int(nil), roIns...)
		o := pipe.Join(ctx, args...)
		other := make([]<-chan int, len(args))
		for i := range args {
			other[i] = make(chan int)
			args[i] = other[i]
		}
		c.memcheck = append(c.memcheck, func() string {
			for i := range args {
				if args[i] != other[i] {
					return fmt.Sprintf("Join wrote to the caller's slice of inputs (slot %d) after it had returned", i)
				}
			}
			return ""
		})
		return []output{outInt(o)}
	case "unfold":
		o, e := pipe.Unfold(ctx, s.N, s.Seed, lift(s.eitherE(c)))
		return []output{outInt(o), outErr(e)}
	case "emit":
		o, e := pipe.Emit(ctx, s.N, time.Duration(s.Freq)*tick, lift(s.eitherE(c)))
		return []output{outInt(o), outErr(e)}
	case "seq":
		// pipe.Seq fills and closes its channel before returning; the values the driver "receives" are the
		// elements of pipe.ToSeq over it, handed out one by one
		// the caller may recycle the slice it spread into the variadic parameter as soon as Seq has returned
		args := append([]int(nil), s.Xs...)
		ch := pipe.Seq(args...)
		for i := range args {
			args[i] = -1
		}
		capacity := cap(ch)
		var drained []int
		done := false
		return []output{{cap: capacity, try: func() (int, bool, bool) {
			if !done {
				drained = pipe.ToSeq(ch)
				done = true
			}
			if len(drained) == 0 {
				return 0, true, true
			}
			v := drained[0]
			drained = drained[1:]
			return v, false, true
		}}}
	case "stderr":
		// pipe.StdErr(out, exx) returns out itself and starts a goroutine that reads exx until it is closed,
		// logging every non-nil error through slog; the log records are the observed "calls"
		s.exx = make(chan error, cap(ins[0]))
		slog.SetDefault(slog.New(&logRec{c: c}))
		out := make(chan int)
		if ret := pipe.StdErr[int](out, s.exx); ret != (<-chan int)(out) {
			panic("StdErr: returned another channel")
		}
		return nil
	case "throttle":
		o := outInt(pipe.Throttling(ctx, roIns[0], s.Ops, time.Duration(s.Freq)*tick))
		return []output{o, {cap: s.Ops}} // out 1 = the internal token channel (not observable): capacity ops by construction
	case "fork":
		in := s.Inner
		flift := func(f func(int) (int, error)) fork.F[int, int] {
			if in.Try {
				return fork.Try(f)
			}
			return fork.Lift(f)
		}
		switch in.Kind {
		case "map":
			o, e := fork.Map(ctx, s.Par, roIns[0], flift(in.eitherE(c)))
			return []output{outInt(o), outErr(e)}
		case "fmap":
			var ff fork.FF[int, int]
			if in.Try {
				ff = fork.TryF(in.arrow(c))
			} else {
				ff = fork.LiftF(in.arrow(c))
			}
			o, e := fork.FMap(ctx, s.Par, roIns[0], ff)
			return []output{outInt(o), outErr(e)}
		case "filter":
			return []output{outInt(fork.Filter(ctx, s.Par, roIns[0], fork.Lift(in.predE(c))))}
		case "partition":
			l, r := fork.Partition(ctx, s.Par, roIns[0], fork.Lift(in.predE(c)))
			return []output{outInt(l), outInt(r)}
		case "foreach":
			fe := func(x int) (int, error) {
				c.enter(x)
				if in.Fail != nil && in.Fail.fails(x) {
					return 0, errVal(1000 + x)
				}
				return x, nil
			}
			if in.Try {
				return []output{outUnit(fork.ForEach(ctx, s.Par, roIns[0], fork.Try(fe)))}
			}
			return []output{outUnit(fork.ForEach(ctx, s.Par, roIns[0], fork.Lift(fe)))}
		case "void":
			return []output{outUnit(fork.Void(ctx, s.Par, roIns[0]))}
		}
	}
	panic("unknown stage " + s.Kind)
}
