package pool

import (
	"bufio"
	"context"
	"encoding/json"
	"fmt"
	"math/rand"
	"os"
	"runtime"
	"strconv"
	"strings"
	"sync/atomic"
	"testing"
	"testing/synctest"
	"time"
)

// Move is one environment move with what the real code did
type Move struct {
	M    string `json:"m"` // send close recv cancel release sleep end
	I    int    `json:"i,omitempty"`
	X    int    `json:"x,omitempty"`
	K    int    `json:"k,omitempty"`
	A    int    `json:"a,omitempty"`
	D    int    `json:"d,omitempty"`
	O    string `json:"o"` // done blocked val closed end
	V    int    `json:"v,omitempty"`
	Now  int    `json:"now,omitempty"`
	Live int    `json:"live,omitempty"`
}

// Case is a stage, its capacities, the schedule and the observations
type Case struct {
	Idx    int     `json:"idx"`
	Family string  `json:"family"`
	Stage  *Stage  `json:"stage"`
	ICaps  []int   `json:"icaps"`
	OCaps  []int   `json:"ocaps"`
	Inputs [][]int `json:"inputs"`
	Moves  []Move  `json:"moves"`
	Calls  []int   `json:"calls"`
	CallAt []int   `json:"call_at,omitempty"`
	Gen    string  `json:"gen"`             // how the schedule was produced
	Crash  string  `json:"crash,omitempty"` // caller-owned memory written by the stage (judged like a crash)
}

// intent is what the generator wants to try next
type intent struct {
	kind string // send close recv cancel release sleep
	i, k int
	d    int
}

// a schedule source: asked for the next intent given what is currently possible
type scheduler interface {
	next(st *runState) (intent, bool)
}

type runState struct {
	stage     *Stage
	inputs    [][]int
	pos       []int  // next element per input
	closedIn  []bool // input closed by the driver
	closedOut []bool // output observed closed
	cancelled bool
	nouts     int
	parked    []int
	nmoves    int
	timed     bool
}

func (st *runState) allSent(i int) bool { return st.pos[i] >= len(st.inputs[i]) }

func liveGoroutines() int {
	buf := make([]byte, 1<<20)
	n := runtime.Stack(buf, true)
	cnt := 0
	for _, g := range strings.Split(string(buf[:n]), "\n\n") {
		if strings.Contains(g, "github.com/fogfish/golem/pipe/v2") {
			cnt++
		}
	}
	return cnt
}

// runCase executes one schedule against the real stage inside a synctest bubble
func runCase(t *testing.T, c *Case, sch scheduler, maxMoves int, drain bool, emit func()) {
	synctest.Test(t, func(t *testing.T) {
		ctx, cancel := context.WithCancel(context.Background())
		start := time.Now()
		ins := make([]chan int, len(c.ICaps))
		for i := range ins {
			ins[i] = make(chan int, c.ICaps[i])
		}
		rec := &calls{gated: c.Stage.Kind == "fork" && c.Stage.Gate, gates: map[int]chan struct{}{}, start: start}
		preCancelled := strings.HasPrefix(c.Gen, "pre-cancelled")
		if preCancelled {
			// the context is already cancelled when the stage is created
			cancel()
			c.Moves = append(c.Moves, Move{M: "cancel", O: "done"})
		}
		// "prefilled": the producer is done before the stage exists - what fits the input buffers is sent and, when
		// that is everything, the input is closed; the stage then finds a filled (and closed) channel, the way
		// pipe.Seq hands one over.  The moves are recorded like any other (they cannot block).
		prefilled := strings.HasPrefix(c.Gen, "prefilled")
		prePos := make([]int, len(ins))
		preClosed := make([]bool, len(ins))
		if prefilled && c.Stage.exx == nil {
			for i := range ins {
				for prePos[i] < len(c.Inputs[i]) && prePos[i] < c.ICaps[i] {
					x := c.Inputs[i][prePos[i]]
					ins[i] <- x
					prePos[i]++
					c.Moves = append(c.Moves, Move{M: "send", I: i, X: x, O: "done"})
				}
				if prePos[i] == len(c.Inputs[i]) {
					close(ins[i])
					preClosed[i] = true
					c.Moves = append(c.Moves, Move{M: "close", I: i, O: "done"})
				}
			}
		}
		// "parked": the producer of every unbuffered input is ALREADY blocked in the send of its first element when the
		// stage is created (an element that is ready before the stage exists is an element like any other)
		parked := strings.HasPrefix(c.Gen, "parked") && c.Stage.exx == nil
		parkAbort := make(chan struct{})
		parkDone := make([]bool, len(ins))
		if parked {
			for i := range ins {
				if c.ICaps[i] == 0 && len(c.Inputs[i]) > 0 {
					go func(i int) {
						select {
						case ins[i] <- c.Inputs[i][0]:
							parkDone[i] = true
						case <-parkAbort:
						}
					}(i)
				}
			}
			synctest.Wait()
		}
		outs := build(ctx, c.Stage, ins, rec)
		if parked {
			synctest.Wait()
			close(parkAbort) // a producer nobody received from gives up: its send never happened
			synctest.Wait()
			for i := range ins {
				if parkDone[i] {
					prePos[i]++
					c.Moves = append(c.Moves, Move{M: "send", I: i, X: c.Inputs[i][0], O: "done"})
				}
			}
		}
		// a SECOND INSTANCE of the same stage is alive during the whole case, with inputs of its own that nobody feeds
		// and a context of its own: two instances share nothing, whatever is pooled or cached inside the package
		var decoyIns []chan int
		var decoyCancel context.CancelFunc
		switch c.Stage.Kind {
		case "unfold", "emit", "throttle", "seq", "stderr":
		default:
			var dctx context.Context
			dctx, decoyCancel = context.WithCancel(context.Background())
			ds := *c.Stage
			for range ins {
				decoyIns = append(decoyIns, make(chan int))
			}
			build(dctx, &ds, decoyIns, &calls{decoy: true, gates: map[int]chan struct{}{}, start: start})
		}
		c.OCaps = nil
		for _, o := range outs {
			c.OCaps = append(c.OCaps, o.cap)
		}
		nobs := len(outs)
		if c.Stage.Kind == "throttle" {
			nobs = 1
		}
		st := &runState{stage: c.Stage, inputs: c.Inputs, pos: prePos, closedIn: preClosed,
			closedOut: make([]bool, nobs), nouts: nobs, timed: c.Stage.Kind == "emit" || c.Stage.Kind == "throttle", cancelled: preCancelled}
		if c.Stage.Kind == "seq" {
			c.Inputs = nil
		}
		// pipe.StdErr reads a channel of errors: the driver's input 0 is that channel (0 stands for a nil error)
		sendIn := func(i, x int) bool {
			if c.Stage.exx != nil {
				var e error
				if x != 0 {
					e = errVal(x)
				}
				select {
				case c.Stage.exx <- e:
					return true
				default:
					return false
				}
			}
			select {
			case ins[i] <- x:
				return true
			default:
				return false
			}
		}
		closeIn := func(i int) {
			if c.Stage.exx != nil {
				close(c.Stage.exx)
				return
			}
			close(ins[i])
		}
		synctest.Wait()

		do := func(in intent) {
			mv := Move{}
			switch in.kind {
			case "send":
				x := st.inputs[in.i][st.pos[in.i]]
				mv = Move{M: "send", I: in.i, X: x}
				if sendIn(in.i, x) {
					mv.O = "done"
					st.pos[in.i]++
				} else {
					mv.O = "blocked"
				}
			case "close":
				closeIn(in.i)
				st.closedIn[in.i] = true
				mv = Move{M: "close", I: in.i, O: "done"}
			case "recv":
				mv = Move{M: "recv", K: in.k}
				v, closed, got := outs[in.k].try()
				switch {
				case !got:
					mv.O = "blocked"
				case closed:
					mv.O = "closed"
					st.closedOut[in.k] = true
				default:
					mv.O = "val"
					mv.V = v
				}
			case "park":
				// the consumer parks in a blocking receive on output k and takes whatever comes until the channel
				// closes (at most 200 values: a select with the send and ctx.Done() both ready picks the send 200
				// times in a row with probability 2^-200); only used after a cancel, which guarantees the close
				if outs[in.k].wait == nil || !st.cancelled {
					return
				}
				for n := 0; n < 200 && !st.closedOut[in.k]; n++ {
					v, closed := outs[in.k].wait()
					pm := Move{M: "recv", K: in.k}
					if closed {
						pm.O = "closed"
						st.closedOut[in.k] = true
					} else {
						pm.O = "val"
						pm.V = v
					}
					st.nmoves++
					c.Moves = append(c.Moves, pm)
				}
				synctest.Wait()
				return
			case "cancel":
				cancel()
				st.cancelled = true
				mv = Move{M: "cancel", O: "done"}
			case "release":
				mv = Move{M: "release", A: in.i, O: "done"}
				rec.release(in.i)
			case "sleep":
				time.Sleep(time.Duration(in.d) * tick)
				mv = Move{M: "sleep", D: in.d, O: "done"}
			}
			synctest.Wait()
			st.parked = rec.parkedNow()
			st.nmoves++
			c.Moves = append(c.Moves, mv)
		}

		for st.nmoves < maxMoves {
			in, ok := sch.next(st)
			if !ok {
				break
			}
			do(in)
		}

		if drain {
			// bring the run to its end: send what is left, close, release, receive until closed
			for round := 0; round < 400; round++ {
				progress := false
				for _, a := range st.parked {
					do(intent{kind: "release", i: a})
					progress = true
				}
				for i := range ins {
					if st.closedIn[i] {
						continue
					}
					if !st.allSent(i) {
						before := st.pos[i]
						do(intent{kind: "send", i: i})
						if st.pos[i] != before {
							progress = true
						}
					} else {
						do(intent{kind: "close", i: i})
						progress = true
					}
				}
				for k := 0; k < st.nouts; k++ {
					if st.closedOut[k] {
						continue
					}
					n := len(c.Moves)
					do(intent{kind: "recv", k: k})
					if c.Moves[n].O != "blocked" {
						progress = true
					}
				}
				done := true
				for k := 0; k < st.nouts; k++ {
					done = done && st.closedOut[k]
				}
				if st.nouts == 0 {
					for i := range ins {
						done = done && st.closedIn[i]
					}
				}
				if done {
					break
				}
				if (c.Stage.Kind == "unfold" || c.Stage.Kind == "emit") && round >= 6 && !st.cancelled {
					// generators never end by themselves (Seq and a Join of nothing do)
					do(intent{kind: "cancel"})
					continue
				}
				if !progress {
					if st.timed || c.Stage.Kind == "unfold" {
						if st.timed && round < 60 && !st.cancelled {
							do(intent{kind: "sleep", d: max(c.Stage.Freq, 1)})
							continue
						}
						if !st.cancelled {
							do(intent{kind: "cancel"})
							continue
						}
						if st.timed && round < 399 {
							do(intent{kind: "sleep", d: max(c.Stage.Freq, 1)})
							continue
						}
					}
					break
				}
			}
		}

		// the second instance ends now: its goroutines leave on their own, before the census
		for _, d := range decoyIns {
			close(d)
		}
		if decoyCancel != nil {
			decoyCancel()
		}
		synctest.Wait()
		c.Moves = append(c.Moves, Move{M: "end", O: "end", Now: int(time.Since(start) / tick), Live: liveGoroutines()})
		// after the census: reveal whether the outputs are closed (ordinary receive moves, no time passes)
		for k := 0; k < st.nouts; k++ {
			for n := 0; !st.closedOut[k] && n < 200; n++ {
				m := len(c.Moves)
				do(intent{kind: "recv", k: k})
				if c.Moves[m].O == "blocked" {
					break
				}
			}
		}
		c.Calls = append([]int(nil), rec.seen...)
		c.CallAt = append([]int(nil), rec.at...)
		for _, f := range rec.memcheck {
			if msg := f(); msg != "" {
				c.Crash = msg
			}
		}
		emit() // persisted before the cleanup: a deadlocked bubble or a late panic kills the process

		// cleanup so that the bubble can end: cancel, release gates, close inputs, drain outputs
		cancel()
		for _, a := range rec.parkedNow() {
			rec.release(a)
		}
		for i := range ins {
			if !st.closedIn[i] {
				closeIn(i)
			}
		}
		for k := 0; k < st.nouts; k++ {
			for n := 0; !st.closedOut[k] && n < 300; n++ {
				synctest.Wait()
				_, closed, got := outs[k].try()
				if got && closed {
					st.closedOut[k] = true
				}
				if !got {
					time.Sleep(time.Duration(max(c.Stage.Freq, 1)) * tick)
				}
			}
		}
		if c.Stage.Kind == "throttle" || c.Stage.Kind == "emit" {
			time.Sleep(time.Duration(max(c.Stage.Freq, 1)) * tick)
		}
		synctest.Wait()
	})
}

// TestHarness is the entry point: VERIF_FAMILY selects the generator, VERIF_OUT the jsonl file
func TestHarness(t *testing.T) {
	family := os.Getenv("VERIF_FAMILY")
	if family == "" {
		t.Skip("VERIF_FAMILY not set")
	}
	seed, _ := strconv.ParseInt(os.Getenv("VERIF_SEED"), 10, 64)
	tier := os.Getenv("VERIF_TIER")
	start, _ := strconv.Atoi(os.Getenv("VERIF_START"))
	f, err := os.OpenFile(os.Getenv("VERIF_OUT"), os.O_CREATE|os.O_WRONLY|os.O_APPEND, 0o644)
	if err != nil {
		t.Fatal(err)
	}
	defer f.Close()
	w := bufio.NewWriter(f)
	defer w.Flush()
	enc := json.NewEncoder(w)

	go watchdog(60 * time.Second)
	var plans []plan
	if rp := os.Getenv("VERIF_REPLAY"); rp != "" {
		plans = replayPlans(rp)
	} else {
		plans = generate(family, rand.New(rand.NewSource(seed)), tier == "thorough")
	}
	for idx, p := range plans {
		if idx < start {
			continue
		}
		c := &Case{Idx: idx, Family: family, Stage: p.stage, ICaps: p.icaps, Inputs: p.inputs, Gen: p.gen}
		// marker: if the process dies inside the case the runner knows which one
		enc.Encode(map[string]any{"begin": idx, "plan": map[string]any{"stage": p.stage, "icaps": p.icaps, "inputs": p.inputs, "gen": p.gen}})
		w.Flush()
		caseStart.Store(time.Now().UnixNano())
		runCase(t, c, p.sched, p.maxMoves, p.drain, func() {
			enc.Encode(c)
			w.Flush()
		})
		caseStart.Store(0)
	}
}

// wall-clock watchdog (outside every synctest bubble): a library goroutine that spins keeps its bubble from ever
// becoming idle, so the case would hang until the test timeout; it is reported as a crash of the case instead
var caseStart atomic.Int64

func watchdog(limit time.Duration) {
	for {
		time.Sleep(500 * time.Millisecond)
		if t0 := caseStart.Load(); t0 != 0 && time.Since(time.Unix(0, t0)) > limit {
			fmt.Fprintf(os.Stderr, "panic: watchdog: the case did not finish within %v of real time (a goroutine spins or never lets the bubble idle)\n", limit)
			os.Exit(2)
		}
	}
}
