package pool

import (
	"bufio"
	"context"
	"encoding/json"
	"math/rand"
	"os"
	"runtime"
	"sort"
	"strconv"
	"strings"
	"sync"
	"testing"
	"time"

	"github.com/fogfish/golem/pipe/v2"
)

// Free-running stress: real producer / consumer goroutines, no synctest, real parallelism.  The end-to-end
// result of every run is judged here (exactly-once, per-input order, multiset equality, closure); a run that
// violates it - or a few small runs as samples - is written out as a pseudo-trace case (all completed sends,
// the closes, the values received in observed order, the observed closures) for the Coq oracle.
func TestFree(t *testing.T) {
	family := os.Getenv("VERIF_FAMILY")
	if family == "" || os.Getenv("VERIF_FREE") == "" {
		t.Skip("VERIF_FREE not set")
	}
	seed, _ := strconv.ParseInt(os.Getenv("VERIF_SEED"), 10, 64)
	rounds, _ := strconv.Atoi(os.Getenv("VERIF_FREE"))
	f, err := os.OpenFile(os.Getenv("VERIF_OUT"), os.O_CREATE|os.O_WRONLY|os.O_APPEND, 0o644)
	if err != nil {
		t.Fatal(err)
	}
	defer f.Close()
	w := bufio.NewWriter(f)
	defer w.Flush()
	enc := json.NewEncoder(w)
	rng := rand.New(rand.NewSource(seed + 7))

	stats := map[string]int{}
	emitted := 0
	for r := 0; r < rounds; r++ {
		runtime.GOMAXPROCS([]int{1, 2, 4, 16}[r%4])
		var st *Stage
		var inputs [][]int
		size := 4 + rng.Intn(12)
		if r%3 == 2 {
			size = 2000 + rng.Intn(4000) // volume: makes few-instruction race windows likely
		}
		switch family {
		case "C12":
			n := 2 + rng.Intn(3)
			st = &Stage{Kind: "join", N: n}
			if r%4 == 1 {
				st.M = 1 // interface-typed elements, nil among them
			}
			for i := 0; i < n; i++ {
				in := make([]int, size)
				for j := range in {
					in[j] = 100*i + j%50
				}
				inputs = append(inputs, in)
			}
		case "C09":
			par := []int{1, 2, 3, 4, 7}[rng.Intn(5)]
			inner := []*Stage{{Kind: "map", A: 2, B: 1}, {Kind: "filter", Pred: &Pred{Kind: "even"}},
				{Kind: "partition", Pred: &Pred{Kind: "modeq", M: 3, R: 1}}, {Kind: "fmap", M: 3},
				{Kind: "map", A: 1, B: 0, Fail: &Fail{Kind: "modeq", M: 5, R: 2}, Try: true}}[rng.Intn(5)]
			st = &Stage{Kind: "fork", Par: par, Inner: inner}
			in := make([]int, size)
			for j := range in {
				in[j] = j + 1
			}
			inputs = [][]int{in}
		case "C11", "C06":
			// cancel while a consumer is PARKED in a blocking receive and (C06) a producer parked in its send: the
			// stage's sends never have to wait, and it must still notice the cancel, stop and close
			var c *Case
			var bad bool
			var why string
			if family == "C11" {
				// a step function that takes a moment: the consumer is parked again before every send
				st = &Stage{Kind: "unfold", N: rng.Intn(4), Seed: rng.Intn(5), A: 1, B: 1, Slow: []int{0, 20, 200}[r%3]}
				c, bad, why = freeCancel(st, 0, rng.Intn(40))
			} else {
				st = []*Stage{{Kind: "map", A: 2, B: 1}, {Kind: "filter", Pred: &Pred{Kind: "true"}}, {Kind: "fmap", M: 2},
					{Kind: "takewhile", Pred: &Pred{Kind: "true"}}, {Kind: "join", N: 2}, {Kind: "partition", Pred: &Pred{Kind: "true"}}}[rng.Intn(6)]
				c, bad, why = freeCancel(st, rng.Intn(3), rng.Intn(40))
			}
			stats[stageLabel(st)]++
			if bad {
				stats["violations"]++
			}
			if bad || emitted < 6 {
				c.Idx = 1000000 + r
				c.Family = family
				c.Gen = "free-running"
				if bad {
					c.Gen = "free-running: " + why
				}
				enc.Encode(c)
				w.Flush()
				emitted++
			}
			if stats["violations"] >= 2 {
				r = rounds
			}
			continue
		default:
			t.Skip("no free-running mode for " + family)
		}
		c, bad, why := freeRun(st, inputs, rng.Intn(3))
		stats[stageLabel(st)]++
		if bad {
			stats["violations"]++
		}
		if bad || (size < 20 && emitted < 12) {
			c.Idx = 1000000 + r
			c.Family = family
			c.Gen = "free-running"
			if bad {
				c.Gen = "free-running: " + why
			}
			enc.Encode(c)
			w.Flush()
			emitted++
		}
		if stats["violations"] >= 3 || (bad && strings.Contains(why, "never")) {
			break // established; a stuck stage costs a full deadline per round
		}
	}
	enc.Encode(map[string]any{"free_stats": stats})
	runtime.GOMAXPROCS(runtime.NumCPU())
}

func stageLabel(s *Stage) string {
	if s.Kind == "fork" {
		return "fork." + s.Inner.Kind
	}
	return s.Kind
}

// freeRun executes the stage with real goroutines and returns the pseudo-trace and a Go-side verdict
func freeRun(st *Stage, inputs [][]int, cp int) (*Case, bool, string) {
	ctx, cancel := context.WithCancel(context.Background())
	defer cancel()
	ins := make([]chan int, len(inputs))
	icaps := make([]int, len(inputs))
	for i := range ins {
		ins[i] = make(chan int, cp)
		icaps[i] = cp
	}
	rec := &calls{decoy: true, gates: map[int]chan struct{}{}, start: time.Now()}
	var outs []output
	send := func(i, x int) { ins[i] <- x }
	closeIn := func(i int) { close(ins[i]) }
	if st.Kind == "join" && st.M == 1 {
		// the elements travel as interface values, and the value 7 of input 0 as the NIL interface: Join forwards
		// whatever its inputs carry, whatever the element type is
		insA := make([]chan any, len(inputs))
		ro := make([]<-chan any, len(inputs))
		for i := range insA {
			insA[i] = make(chan any, cp)
			ro[i] = insA[i]
		}
		o := pipe.Join(ctx, ro...)
		outs = []output{{cap: cap(o), try: func() (int, bool, bool) {
			select {
			case v, ok := <-o:
				if !ok {
					return 0, true, true
				}
				if v == nil {
					return 7, false, true
				}
				return v.(int), false, true
			default:
				return 0, false, false
			}
		}}}
		send = func(i, x int) {
			if i == 0 && x == 7 {
				insA[i] <- nil
			} else {
				insA[i] <- x
			}
		}
		closeIn = func(i int) { close(insA[i]) }
	} else {
		outs = build(ctx, st, ins, rec)
	}
	c := &Case{Stage: st, ICaps: icaps, Inputs: inputs}
	for _, o := range outs {
		c.OCaps = append(c.OCaps, o.cap)
	}
	var wg sync.WaitGroup
	for i := range ins {
		wg.Add(1)
		go func(i int) {
			defer wg.Done()
			for j, x := range inputs[i] {
				send(i, x)
				if j%17 == 0 {
					runtime.Gosched()
				}
			}
			closeIn(i)
		}(i)
	}
	got := make([][]int, len(outs))
	closed := make([]bool, len(outs))
	var cwg sync.WaitGroup
	deadline := time.Now().Add(180 * time.Second) // generous: only a stage that is really stuck gets here
	for k := range outs {
		cwg.Add(1)
		go func(k int) {
			defer cwg.Done()
			for time.Now().Before(deadline) {
				v, cl, ok := outs[k].try()
				if !ok {
					runtime.Gosched()
					continue
				}
				if cl {
					closed[k] = true
					return
				}
				got[k] = append(got[k], v)
			}
		}(k)
	}
	cwg.Wait()
	stuck := false
	done := make(chan struct{})
	go func() { wg.Wait(); close(done) }()
	select {
	case <-done:
	case <-time.After(60 * time.Second):
		stuck = true
	}
	// pseudo-trace
	for i := range inputs {
		for _, x := range inputs[i] {
			c.Moves = append(c.Moves, Move{M: "send", I: i, X: x, O: "done"})
		}
		c.Moves = append(c.Moves, Move{M: "close", I: i, O: "done"})
	}
	for k := range outs {
		for _, v := range got[k] {
			c.Moves = append(c.Moves, Move{M: "recv", K: k, O: "val", V: v})
		}
		if closed[k] {
			c.Moves = append(c.Moves, Move{M: "recv", K: k, O: "closed"})
		}
	}
	c.Moves = append(c.Moves, Move{M: "end", O: "end", Now: 0, Live: 0})
	c.Calls = append([]int(nil), rec.seen...)

	// verdict
	if stuck {
		return c, true, "producers never finished"
	}
	for k := range outs {
		if !closed[k] {
			return c, true, "an output never closed"
		}
	}
	switch st.Kind {
	case "join":
		next := make([]int, len(inputs))
		total := 0
		for _, v := range got[0] {
			i := v / 100
			if i < 0 || i >= len(inputs) || next[i] >= len(inputs[i]) || inputs[i][next[i]] != v {
				return c, true, "per-input order / exactly-once broken at value " + strconv.Itoa(v)
			}
			next[i]++
			total++
		}
		for i := range inputs {
			if next[i] != len(inputs[i]) {
				return c, true, "elements of input " + strconv.Itoa(i) + " lost"
			}
		}
	case "fork":
		want := forkImage(st.Inner, inputs[0])
		for k := range want {
			a := append([]int(nil), got[k]...)
			b := append([]int(nil), want[k]...)
			sort.Ints(a)
			sort.Ints(b)
			if len(a) != len(b) {
				return c, true, "output " + strconv.Itoa(k) + " has " + strconv.Itoa(len(a)) + " values, want " + strconv.Itoa(len(b))
			}
			for j := range a {
				if a[j] != b[j] {
					return c, true, "output " + strconv.Itoa(k) + " is not the multiset of the list image"
				}
			}
		}
		if st.Inner.Kind != "void" {
			cs := append([]int(nil), rec.seen...)
			sort.Ints(cs)
			in := append([]int(nil), inputs[0]...)
			sort.Ints(in)
			if len(cs) != len(in) {
				return c, true, "user function applied " + strconv.Itoa(len(cs)) + " times for " + strconv.Itoa(len(in)) + " elements"
			}
			for j := range cs {
				if cs[j] != in[j] {
					return c, true, "user function not applied exactly once per element"
				}
			}
		}
	}
	return c, false, ""
}

// the list image of a fork inner stage per output
func forkImage(in *Stage, xs []int) [][]int {
	var o0, o1 []int
	for _, x := range xs {
		fails := in.Fail != nil && in.Fail.fails(x)
		switch in.Kind {
		case "map":
			if fails {
				o1 = append(o1, 1000+x)
			} else {
				o0 = append(o0, in.A*x+in.B)
			}
		case "fmap":
			if fails {
				o1 = append(o1, 1000+x)
			} else {
				for j := 0; j < mod(x, in.M); j++ {
					o0 = append(o0, 10*x+j)
				}
			}
		case "filter":
			if in.Pred.apply(x) {
				o0 = append(o0, x)
			}
		case "partition":
			if in.Pred.apply(x) {
				o0 = append(o0, x)
			} else {
				o1 = append(o1, x)
			}
		}
	}
	switch in.Kind {
	case "filter":
		return [][]int{o0}
	}
	return [][]int{o0, o1}
}

// freeCancel: real goroutines; the consumer of output 0 is parked in a blocking receive, the other outputs are
// drained, every input gets a producer parked in its send of 1, 2, 3, ...; after k values the consumer cancels
// and goes on receiving.  The stage must stop and close; how much it still delivers after the cancel is bounded
// only by chance (a select with both arms ready), so 100000 further values mean it never looked at the cancel.
func freeCancel(st *Stage, cp int, k int) (*Case, bool, string) {
	ctx, cancel := context.WithCancel(context.Background())
	defer cancel()
	nin := 0
	switch st.Kind {
	case "unfold", "emit":
	case "join":
		nin = st.N
	default:
		nin = 1
	}
	ins := make([]chan int, nin)
	icaps := make([]int, nin)
	for i := range ins {
		ins[i] = make(chan int, cp)
		icaps[i] = cp
	}
	rec := &calls{decoy: true, gates: map[int]chan struct{}{}, start: time.Now()}
	outs := build(ctx, st, ins, rec)
	c := &Case{Stage: st, ICaps: icaps, Inputs: make([][]int, nin)}
	for _, o := range outs {
		c.OCaps = append(c.OCaps, o.cap)
	}
	stop := make(chan struct{})
	sentN := make([]int, nin)
	var pwg sync.WaitGroup
	for i := range ins {
		pwg.Add(1)
		go func(i int) {
			defer pwg.Done()
			for x := 1; ; x++ {
				select {
				case ins[i] <- 100*i + x%50:
					sentN[i]++
				case <-stop:
					close(ins[i])
					return
				}
			}
		}(i)
	}
	var got []int
	after := 0
	closed := make([]bool, len(outs))
	done := make(chan struct{})
	go func() {
		defer close(done)
		for n := 0; ; n++ {
			if n == k {
				cancel()
			}
			v, cl := outs[0].wait()
			if cl {
				closed[0] = true
				break
			}
			if n >= k {
				after++
				if after > 100000 {
					return
				}
			}
			if len(got) < k+40 {
				got = append(got, v)
			}
		}
		for j := 1; j < len(outs); j++ {
			for {
				if _, cl := outs[j].wait(); cl {
					closed[j] = true
					break
				}
			}
		}
	}()
	// the other outputs must not hold the stage back while output 0 is being consumed
	for j := 1; j < len(outs); j++ {
		go func(j int) {
			for {
				select {
				case <-done:
					return
				default:
				}
				if _, cl, ok := outs[j].try(); ok && cl {
					return
				}
				runtime.Gosched()
			}
		}(j)
	}
	stuck := false
	select {
	case <-done:
	case <-time.After(120 * time.Second):
		stuck = true
	}
	close(stop)
	pwg.Wait()
	// pseudo-trace: what was handed over, what output 0 delivered (cut), the cancel, the closes seen
	for i := range ins {
		for x := 1; x <= sentN[i]; x++ {
			c.Moves = append(c.Moves, Move{M: "send", I: i, X: 100*i + x%50, O: "done"})
		}
	}
	for n, v := range got {
		if n == k {
			c.Moves = append(c.Moves, Move{M: "cancel", O: "done"})
		}
		c.Moves = append(c.Moves, Move{M: "recv", K: 0, O: "val", V: v})
	}
	if len(got) <= k {
		c.Moves = append(c.Moves, Move{M: "cancel", O: "done"})
	}
	for j := range outs {
		if closed[j] {
			c.Moves = append(c.Moves, Move{M: "recv", K: j, O: "closed"})
		}
	}
	c.Moves = append(c.Moves, Move{M: "end", O: "end", Now: 0, Live: 0})
	switch {
	case stuck:
		return c, true, "neither a value nor the close arrives after the cancel"
	case !closed[0]:
		return c, true, "still delivering 100000 values after the cancel: the cancel is never noticed"
	}
	for j := range outs {
		if !closed[j] {
			return c, true, "an output is not closed after the cancel"
		}
	}
	return c, false, ""
}
