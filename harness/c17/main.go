// Harness for C17: runs the real instances of /repo/pure (eq, ord, semigroup, monoid) on boundary and random
// arguments and prints one JSON case per line.  Strings travel as byte lists.
package main

import (
	"encoding/json"
	"math"
	"math/rand"
	"os"
	"strconv"

	"github.com/fogfish/golem/pure"
	"github.com/fogfish/golem/pure/eq"
	"github.com/fogfish/golem/pure/monoid"
	"github.com/fogfish/golem/pure/ord"
	"github.com/fogfish/golem/pure/semigroup"
)

type Case struct {
	Kind string  `json:"kind"`
	Code int64   `json:"code"`
	A    []int64 `json:"a"`
	B    []int64 `json:"b"`
	E    int64   `json:"e"`
	Obs  []int64 `json:"obs"`
}

func b2i(b bool) int64 {
	if b {
		return 1
	}
	return 0
}

func bytesOf(s string) []int64 {
	r := make([]int64, len(s))
	for i := 0; i < len(s); i++ {
		r[i] = int64(s[i])
	}
	return r
}

// projections (ContraMap), coded 0..2
func proj(code int64) func(int) int {
	switch code {
	case 0:
		return func(x int) int { return ((x % 5) + 5) % 5 }
	case 1:
		return func(x int) int { return -x }
	}
	return func(x int) int { return x / 2 } // truncated division
}

// binary operations, coded 0..2: a-b, 3a+b, a*b   (order sensitive except the last)
func op(code int64) func(int, int) int {
	switch code {
	case 0:
		return func(a, b int) int { return a - b }
	case 1:
		return func(a, b int) int { return 3*a + b }
	}
	return func(a, b int) int { return a * b }
}

func main() {
	seed, _ := strconv.ParseInt(os.Getenv("VERIF_SEED"), 10, 64)
	n := 40
	if os.Getenv("VERIF_TIER") == "thorough" {
		n = 600
	}
	rng := rand.New(rand.NewSource(seed))
	enc := json.NewEncoder(os.Stdout)
	emit := func(c Case) { enc.Encode(c) }

	ints := []int{math.MinInt64, math.MinInt64 + 1, -2, -1, 0, 1, 2, math.MaxInt64 - 1, math.MaxInt64}
	for i := 0; i < n/4; i++ {
		ints = append(ints, int(rng.Int63())-int(rng.Int63()), rng.Intn(7)-3)
	}
	strs := []string{"", "a", "ab", "abc", "b", "\x00", "a\x00", "\xff", "\xfe\xff", "é", "é", "ab\xff", "z"}
	for i := 0; i < n/4; i++ {
		l := rng.Intn(4)
		bs := make([]byte, l)
		for j := range bs {
			bs[j] = []byte{0, 'a', 'b', 0xff, 0xc3}[rng.Intn(5)]
		}
		strs = append(strs, string(bs))
	}
	// longer strings, around the machine word sizes: equal-length pairs that differ in exactly one byte, at every position
	// of lengths 7..9, 15..17 and 24, plus the equal pair and a pair of different lengths
	var longPairs [][2]string
	for _, l := range []int{7, 8, 9, 15, 16, 17, 24} {
		base := make([]byte, l)
		for j := range base {
			base[j] = byte('a' + (j*7+l)%26)
		}
		longPairs = append(longPairs, [2]string{string(base), string(base)}, [2]string{string(base), string(base[:l-1])})
		for j := 0; j < l; j++ {
			if l > 9 && j > 1 && j < l-9 && j%3 != 0 {
				continue
			}
			o := append([]byte{}, base...)
			o[j] ^= 0x01
			longPairs = append(longPairs, [2]string{string(base), string(o)}, [2]string{string(o), string(base)})
		}
	}
	pick := func(k int) [][2]int {
		var ps [][2]int
		for i := 0; i < k; i++ {
			ps = append(ps, [2]int{ints[rng.Intn(len(ints))], ints[rng.Intn(len(ints))]})
		}
		return ps
	}
	// eq.Int / ord.Int: all boundary pairs + random pairs
	for i := 0; i < 9; i++ {
		for j := 0; j < 9; j++ {
			a, b := ints[i], ints[j]
			emit(Case{Kind: "eqint", A: []int64{int64(a)}, B: []int64{int64(b)}, Obs: []int64{b2i(eq.Int.Equal(a, b))}})
			emit(Case{Kind: "ordint", A: []int64{int64(a)}, B: []int64{int64(b)}, Obs: []int64{int64(ord.Int.Compare(a, b))}})
		}
	}
	for _, p := range pick(n) {
		emit(Case{Kind: "eqint", A: []int64{int64(p[0])}, B: []int64{int64(p[1])}, Obs: []int64{b2i(eq.Int.Equal(p[0], p[1]))}})
		emit(Case{Kind: "ordint", A: []int64{int64(p[0])}, B: []int64{int64(p[1])}, Obs: []int64{int64(ord.Int.Compare(p[0], p[1]))}})
	}
	for i := range strs {
		for j := range strs {
			if i >= 13 && j >= 13 && rng.Intn(4) != 0 {
				continue
			}
			a, b := strs[i], strs[j]
			emit(Case{Kind: "eqstr", A: bytesOf(a), B: bytesOf(b), Obs: []int64{b2i(eq.String.Equal(a, b))}})
			emit(Case{Kind: "ordstr", A: bytesOf(a), B: bytesOf(b), Obs: []int64{int64(ord.String.Compare(a, b))}})
		}
	}
	for _, p := range longPairs {
		a, b := p[0], p[1]
		emit(Case{Kind: "eqstr", A: bytesOf(a), B: bytesOf(b), Obs: []int64{b2i(eq.String.Equal(a, b))}})
		emit(Case{Kind: "ordstr", A: bytesOf(a), B: bytesOf(b), Obs: []int64{int64(ord.String.Compare(a, b))}})
	}
	// small values for the coded functions (no overflow)
	small := func() int { return rng.Intn(41) - 20 }
	for i := 0; i < n; i++ {
		a, b, code := small(), small(), int64(rng.Intn(3))
		cme := eq.ContraMap[int, int]{Eq: eq.Int, ContraMap: pure.ContraMap[int, int](proj(code))}
		emit(Case{Kind: "cmeq", Code: code, A: []int64{int64(a)}, B: []int64{int64(b)}, Obs: []int64{b2i(cme.Equal(a, b))}})
		cmo := ord.ContraMap[int, int]{Ord: ord.Int, ContraMap: pure.ContraMap[int, int](proj(code))}
		emit(Case{Kind: "cmord", Code: code, A: []int64{int64(a)}, B: []int64{int64(b)}, Obs: []int64{int64(cmo.Compare(a, b))}})
		// the same through a record type that Go cannot compare with == (it has a slice field): ContraMap promises
		// nothing but the base instance on the projections, for ANY type B; a panic is observed as 99
		type rec struct {
			Rank int
			Tags []string
		}
		ra, rb := rec{Rank: a, Tags: []string{"x"}}, rec{Rank: b}
		cmo2 := ord.ContraMap[int, rec]{Ord: ord.Int, ContraMap: pure.ContraMap[int, rec](func(r rec) int { return proj(code)(r.Rank) })}
		cme2 := eq.ContraMap[int, rec]{Eq: eq.Int, ContraMap: pure.ContraMap[int, rec](func(r rec) int { return proj(code)(r.Rank) })}
		obsO, obsE := int64(99), int64(99)
		func() {
			defer func() { recover() }()
			obsO = int64(cmo2.Compare(ra, rb))
		}()
		func() {
			defer func() { recover() }()
			obsE = b2i(cme2.Equal(ra, rb))
		}()
		emit(Case{Kind: "cmord", Code: code, A: []int64{int64(a)}, B: []int64{int64(b)}, Obs: []int64{obsO}})
		emit(Case{Kind: "cmeq", Code: code, A: []int64{int64(a)}, B: []int64{int64(b)}, Obs: []int64{obsE}})
		// ContraMap over a From instance whose relation is not symmetric: the base instance gets the projections in
		// the order of the arguments
		asymE := eq.From[int](func(x, y int) bool { return x == y+int(code) })
		asymO := ord.From[int](func(x, y int) ord.Ordering { return ord.Int.Compare(x, y+int(code)) })
		cme3 := eq.ContraMap[int, int]{Eq: asymE, ContraMap: pure.ContraMap[int, int](proj(code))}
		cmo3 := ord.ContraMap[int, int]{Ord: asymO, ContraMap: pure.ContraMap[int, int](proj(code))}
		emit(Case{Kind: "cmfromeq", Code: code, A: []int64{int64(a)}, B: []int64{int64(b)}, Obs: []int64{b2i(cme3.Equal(a, b))}})
		emit(Case{Kind: "cmfromord", Code: code, A: []int64{int64(a)}, B: []int64{int64(b)}, Obs: []int64{int64(cmo3.Compare(a, b))}})
		// From wrappers with argument-order-sensitive functions: a == b+code, compare(a, b+code)
		fe := eq.From[int](func(x, y int) bool { return x == y+int(code) })
		emit(Case{Kind: "fromeq", Code: code, A: []int64{int64(a)}, B: []int64{int64(b)}, Obs: []int64{b2i(fe.Equal(a, b))}})
		fo := ord.From[int](func(x, y int) ord.Ordering { return ord.Int.Compare(x, y+int(code)) })
		emit(Case{Kind: "fromord", Code: code, A: []int64{int64(a)}, B: []int64{int64(b)}, Obs: []int64{int64(fo.Compare(a, b))}})
		// a wrapped comparator may return any Ordering, not only LT/EQ/GT (a distance, a difference of lengths): From
		// returns exactly what it returns - directly and as the base of a ContraMap
		dist := ord.From[int](func(x, y int) ord.Ordering { return ord.Ordering(x - y + int(code)) })
		emit(Case{Kind: "fromorddist", Code: code, A: []int64{int64(a)}, B: []int64{int64(b)}, Obs: []int64{int64(dist.Compare(a, b))}})
		cmo4 := ord.ContraMap[int, int]{Ord: dist, ContraMap: pure.ContraMap[int, int](proj(code))}
		emit(Case{Kind: "cmfromorddist", Code: code, A: []int64{int64(a)}, B: []int64{int64(b)}, Obs: []int64{int64(cmo4.Compare(a, b))}})
		// a monoid over slices whose operation is not commutative (concatenation into a fresh slice) and whose given
		// "empty" element is a NON-EMPTY slice (the instances take whatever they are given: 2x2 matrices as []int
		// have the identity [1 0 0 1]); Empty() is that element, Combine the given operation with arguments in order
		cat := func(x, y []int) []int { return append(append([]int{}, x...), y...) }
		se := []int{a, a + 1}
		if i%4 == 0 {
			se = []int{}
		} else if i%4 == 1 {
			se = nil
		}
		sa, sb := []int{a, b, 7}[:1+i%3], []int{b, 5}[:i%3]
		var ms monoid.Monoid[[]int]
		if i%2 == 0 {
			ms = monoid.From[[]int](se, semigroup.From[[]int](cat))
		} else {
			ms = monoid.FromOp[[]int](se, cat)
		}
		so := []int64{}
		for _, l := range [][]int{ms.Empty(), ms.Combine(sa, sb), ms.Combine(sb, sa), ms.Combine(ms.Empty(), sa)} {
			so = append(so, int64(len(l)))
			for _, v := range l {
				so = append(so, int64(v))
			}
		}
		toL := func(l []int) []int64 {
			r := []int64{}
			for _, v := range l {
				r = append(r, int64(v))
			}
			return r
		}
		emit(Case{Kind: "monslice", Code: int64(len(se)), A: toL(sa), B: toL(sb), E: int64(a), Obs: so})
		sg := semigroup.From[int](op(code))
		emit(Case{Kind: "sgfrom", Code: code, A: []int64{int64(a)}, B: []int64{int64(b)}, Obs: []int64{int64(sg.Combine(a, b))}})
		e := small()
		if i%3 == 0 {
			e = a // an argument equal to the empty element
		}
		m1 := monoid.From[int](e, semigroup.From[int](op(code)))
		emit(Case{Kind: "monfrom", Code: code, A: []int64{int64(a)}, B: []int64{int64(b)}, E: int64(e), Obs: []int64{int64(m1.Empty()), int64(m1.Combine(a, b)), int64(m1.Combine(b, a))}})
		// a monoid is a semigroup: re-basing one on another empty element keeps the operation, takes the given empty
		m3 := monoid.From[int](e, monoid.FromOp[int](e+1+rng.Intn(3), op(code)))
		emit(Case{Kind: "monfrom", Code: code, A: []int64{int64(a)}, B: []int64{int64(b)}, E: int64(e), Obs: []int64{int64(m3.Empty()), int64(m3.Combine(a, b)), int64(m3.Combine(b, a))}})
		m4 := monoid.From[int](e, monoid.From[int](e-1-rng.Intn(3), semigroup.From[int](op(code))))
		emit(Case{Kind: "monfrom", Code: code, A: []int64{int64(a)}, B: []int64{int64(b)}, E: int64(e), Obs: []int64{int64(m4.Empty()), int64(m4.Combine(a, b)), int64(m4.Combine(b, a))}})
		m2 := monoid.FromOp[int](e, op(code))
		emit(Case{Kind: "monfromop", Code: code, A: []int64{int64(a)}, B: []int64{int64(b)}, E: int64(e), Obs: []int64{int64(m2.Empty()), int64(m2.Combine(a, b)), int64(m2.Combine(b, a))}})
	}
}
