// Harness for C15: builds the REAL key-value iterators of /repo/trait/pair (and the plain
// iterators of /repo/trait/seq they are bridged to by ToSeq/FromSeq) from expression trees over
// function codes (the same codes coq/theories/Iter/PairModel.v interprets), drains them with the
// documented loop (or ForEach) reading Key() and Value() at every position, and prints one JSON
// case per line.  Keys differ from values (k = 1000 + v for the coded sources).
//
//	VERIF_SEED   seed of the only PRNG
//	VERIF_TIER   quick | thorough
//	VERIF_CASES  file of JSON lines {"expr":..,"mode":..}: run exactly these (replay / shrinking)
package main

import (
	"bufio"
	"encoding/json"
	"fmt"
	"math/rand"
	"os"
	"strconv"
	"strings"

	"github.com/fogfish/golem/trait/pair"
	"github.com/fogfish/golem/trait/seq"
)

type Pred struct {
	K  string `json:"k"` // lt | ne | par | true | false | mod (x mod c == r) | in (x is one of xs)
	C  int    `json:"c,omitempty"`
	R  int    `json:"r,omitempty"`
	Xs []int  `json:"xs,omitempty"`
}

type PPred struct {
	K string `json:"k"` // key | val | both | diff
	P *Pred  `json:"p,omitempty"`
	Q *Pred  `json:"q,omitempty"`
	C int    `json:"c,omitempty"`
}

type Mapc struct {
	K string `json:"k"` // aff | const
	A int    `json:"a,omitempty"`
	B int    `json:"b,omitempty"`
}

type PMap struct {
	K string `json:"k"` // val | key | diff | mix
	M *Mapc  `json:"m,omitempty"`
}

// pair sort: pfrom parg ptakew pdropw pfilter pmap pplus pjoin pjoine pfromseq pfromseqe pwhen
// seq sort:  sfrom sslice sargk sargv sshift stoseq stoseqe swhen
// pwhen / swhen: the conditional body of a join function - nil unless the guard p holds of the argument (a, b)
type Node struct {
	O  string `json:"o"`
	Kk int    `json:"kk,omitempty"`
	V  int    `json:"v,omitempty"`
	Xs []int  `json:"xs,omitempty"`
	P  *PPred `json:"p,omitempty"`
	M  *PMap  `json:"m,omitempty"`
	J  string `json:"j,omitempty"` // pjoin: nil repl skew; stoseq: nil kv range; pfromseq: nil pair two
	S  *Node  `json:"s,omitempty"`
	L  *Node  `json:"l,omitempty"`
	R  *Node  `json:"r,omitempty"`
	B  *Node  `json:"b,omitempty"`

	buf []int
}

func (t *Node) isSeq() bool { return t.O[0] == 's' }

type Mode struct {
	K string `json:"k"` // drain | pos | pred
	N int    `json:"n,omitempty"`
	P *PPred `json:"p,omitempty"`
}

type Case struct {
	Expr  *Node    `json:"expr"`
	Mode  Mode     `json:"mode"`
	Obs   [][2]int `json:"obs"`
	Err   *int     `json:"err"`
	After [][]int  `json:"after"`
	Post  [][3]int `json:"post"` // Next() again after false: [-1,0,0] panic, [0,0,0] false, [1,k,v] true; after a ForEach that returned an error: [2,k,v] where the iterator stands
	Panic bool     `json:"panic"`
	Why   string   `json:"why,omitempty"`
	Gen   string   `json:"gen,omitempty"`
}

func emod(x, m int) int { return ((x % m) + m) % m }

func pred(p *Pred) func(int) bool {
	switch p.K {
	case "lt":
		return func(x int) bool { return x < p.C }
	case "ne":
		return func(x int) bool { return x != p.C }
	case "par":
		return func(x int) bool { return emod(x, 2) == p.C }
	case "true":
		return func(int) bool { return true }
	case "false":
		return func(int) bool { return false }
	case "mod":
		if p.C <= 0 {
			panic("pred code mod: modulus must be positive")
		}
		return func(x int) bool { return emod(x, p.C) == p.R }
	case "in":
		return func(x int) bool {
			for _, y := range p.Xs {
				if x == y {
					return true
				}
			}
			return false
		}
	}
	panic("pred code " + p.K)
}

func ppred(p *PPred) func(int, int) bool {
	switch p.K {
	case "key":
		f := pred(p.P)
		return func(k, v int) bool { return f(k) }
	case "val":
		f := pred(p.P)
		return func(k, v int) bool { return f(v) }
	case "both":
		f, g := pred(p.P), pred(p.Q)
		return func(k, v int) bool { return f(k) && g(v) }
	case "diff":
		return func(k, v int) bool { return k-v < p.C }
	}
	panic("ppred code " + p.K)
}

func mapc(m *Mapc) func(int) int {
	switch m.K {
	case "aff":
		return func(x int) int { return m.A*x + m.B }
	case "const":
		return func(int) int { return m.A }
	}
	panic("map code " + m.K)
}

func pmapc(m *PMap) func(int, int) int {
	switch m.K {
	case "val":
		f := mapc(m.M)
		return func(k, v int) int { return f(v) }
	case "key":
		f := mapc(m.M)
		return func(k, v int) int { return f(k) }
	case "diff":
		return func(k, v int) int { return k - v }
	case "mix":
		return func(k, v int) int { return 2*k + v }
	}
	panic("pmap code " + m.K)
}

// Plus(From(k1,v1), Plus(From(k2,v2), .. nil)): how the coded functions return several pairs
func fromList(kvs [][2]int) pair.Seq[int, int] {
	var r pair.Seq[int, int]
	for i := len(kvs) - 1; i >= 0; i-- {
		r = pair.Plus(pair.From(kvs[i][0], kvs[i][1]), r)
	}
	return r
}

func pjoinc(j string) func(int, int) pair.Seq[int, int] {
	switch j {
	case "nil":
		return func(int, int) pair.Seq[int, int] { return nil }
	case "repl":
		return func(k, v int) pair.Seq[int, int] {
			l := [][2]int{}
			for i := 0; i < emod(v, 3); i++ {
				l = append(l, [2]int{k, v})
			}
			return fromList(l)
		}
	case "skew":
		return func(k, v int) pair.Seq[int, int] {
			if emod(v, 2) == 0 {
				return nil
			}
			return fromList([][2]int{{k + 1, v + 2}, {k - v, v}})
		}
	}
	panic("pjoin code " + j)
}

func toseqc(j string) func(int, int) seq.Seq[int] {
	switch j {
	case "nil":
		return func(int, int) seq.Seq[int] { return nil }
	case "kv":
		return func(k, v int) seq.Seq[int] { return seq.FromSlice([]int{k, v}) }
	case "range":
		return func(k, v int) seq.Seq[int] {
			xs := []int{}
			for i := 0; i < emod(v, 3); i++ {
				xs = append(xs, k+i)
			}
			return seq.FromSlice(xs)
		}
	}
	panic("toseq code " + j)
}

func fromseqc(j string) func(int) pair.Seq[int, int] {
	switch j {
	case "nil":
		return func(int) pair.Seq[int, int] { return nil }
	case "pair":
		return func(x int) pair.Seq[int, int] { return pair.From(1000+x, x) }
	case "two":
		return func(x int) pair.Seq[int, int] {
			if emod(x, 2) == 0 {
				return nil
			}
			return fromList([][2]int{{1000 + x, x}, {2000 + x, -x}})
		}
	}
	panic("fromseq code " + j)
}

func prepare(t *Node) {
	if t == nil {
		return
	}
	if t.O == "sslice" {
		b := make([]int, len(t.Xs), len(t.Xs)+2)
		copy(b, t.Xs)
		t.buf = b
	}
	prepare(t.S)
	prepare(t.L)
	prepare(t.R)
	prepare(t.B)
}

// pre-order, the same order as PairModel.psources / ssources
func sources(t *Node, acc *[][]int) {
	if t == nil {
		return
	}
	switch t.O {
	case "sslice":
		c := make([]int, len(t.buf))
		copy(c, t.buf)
		*acc = append(*acc, c)
	case "pplus":
		sources(t.L, acc)
		sources(t.R, acc)
	case "pjoine", "pfromseqe", "stoseqe":
		sources(t.B, acc)
		sources(t.S, acc)
	default:
		sources(t.S, acc)
	}
}

type env struct{ a, b int }

func buildP(t *Node, e env) pair.Seq[int, int] {
	work++
	switch t.O {
	case "pfrom":
		return pair.From(t.Kk, t.V)
	case "parg":
		return pair.From(e.a, e.b)
	case "ptakew":
		return pair.TakeWhile(buildP(t.S, e), ppred(t.P))
	case "pdropw":
		return pair.DropWhile(buildP(t.S, e), ppred(t.P))
	case "pfilter":
		return pair.Filter(buildP(t.S, e), ppred(t.P))
	case "pmap":
		return pair.Map(buildP(t.S, e), pmapc(t.M))
	case "pplus":
		l := buildP(t.L, e)
		r := buildP(t.R, e)
		return pair.Plus(l, r)
	case "pjoin":
		f := pjoinc(t.J)
		return pair.Join(buildP(t.S, e), func(k, v int) pair.Seq[int, int] { work++; return f(k, v) })
	case "pjoine":
		return pair.Join(buildP(t.S, e), func(k, v int) pair.Seq[int, int] { return buildP(t.B, env{k, v}) })
	case "pfromseq":
		f := fromseqc(t.J)
		return pair.FromSeq(buildS(t.S, e), func(x int) pair.Seq[int, int] { work++; return f(x) })
	case "pfromseqe":
		return pair.FromSeq(buildS(t.S, e), func(x int) pair.Seq[int, int] { return buildP(t.B, env{1000 + x, x}) })
	case "pwhen":
		if !ppred(t.P)(e.a, e.b) {
			return nil
		}
		return buildP(t.S, e)
	}
	panic("pair op " + t.O)
}

func buildS(t *Node, e env) seq.Seq[int] {
	work++
	switch t.O {
	case "sfrom":
		return seq.From(t.V)
	case "sslice":
		return seq.FromSlice(t.buf)
	case "sargk":
		return seq.From(e.a)
	case "sargv":
		return seq.From(e.b)
	case "sshift":
		ys := make([]int, len(t.Xs))
		for i, y := range t.Xs {
			ys[i] = e.b + y
		}
		return seq.FromSlice(ys)
	case "stoseq":
		f := toseqc(t.J)
		return pair.ToSeq(buildP(t.S, e), func(k, v int) seq.Seq[int] { work++; return f(k, v) })
	case "stoseqe":
		return pair.ToSeq(buildP(t.S, e), func(k, v int) seq.Seq[int] { return buildS(t.B, env{k, v}) })
	case "swhen":
		if !ppred(t.P)(e.a, e.b) {
			return nil
		}
		return buildS(t.S, e)
	}
	panic("seq op " + t.O)
}

// limit: elements after which a run is declared non-terminating.  Random trees are cut off much earlier and
// then skipped (their evaluation inside Coq would be too deep): result longer than maxObs elements, or more
// than maxWork constructor calls (every call of a join function builds at least one iterator).
var limit = 200000

const maxObs = 1500
const maxWork = 4000

var work int

type codeErr int

func (e codeErr) Error() string { return "E" + strconv.Itoa(int(e)) }

func pagain(it pair.Seq[int, int]) (o [3]int) {
	defer func() {
		if r := recover(); r != nil {
			o = [3]int{-1, 0, 0}
		}
	}()
	if it.Next() {
		return [3]int{1, it.Key(), it.Value()}
	}
	return [3]int{0, 0, 0}
}

func sagain(it seq.Seq[int]) (o [3]int) {
	defer func() {
		if r := recover(); r != nil {
			o = [3]int{-1, 0, 0}
		}
	}()
	if it.Next() {
		return [3]int{1, 0, it.Value()}
	}
	return [3]int{0, 0, 0}
}

func run(t *Node, m Mode) (c Case) {
	prepare(t)
	work = 0
	c.Expr, c.Mode, c.Obs, c.After, c.Post = t, m, [][2]int{}, [][]int{}, [][3]int{}
	defer func() {
		if r := recover(); r != nil {
			c.Panic = true
			c.Why = fmt.Sprint(r)
			if len(c.Obs) > 200 {
				c.Obs = c.Obs[:200]
			}
		}
		c.After = [][]int{}
		sources(t, &c.After)
	}()
	calls := 0
	var f func(int, int) bool
	if m.K == "pred" {
		f = ppred(m.P)
	}
	callback := func(k, v int) error {
		c.Obs = append(c.Obs, [2]int{k, v})
		n := calls
		calls++
		if len(c.Obs) > limit {
			panic("no end")
		}
		if m.K == "pos" && n == m.N {
			return codeErr(7000 + n)
		}
		if m.K == "pred" && f(k, v) {
			return codeErr(2*k + v)
		}
		return nil
	}
	var err error
	if t.isSeq() {
		it := buildS(t, env{0, 0})
		if m.K == "drain" {
			for has := it != nil; has; has = it.Next() {
				c.Obs = append(c.Obs, [2]int{0, it.Value()})
				if len(c.Obs) > limit {
					panic("no end")
				}
			}
			for k := 0; k < 2 && it != nil; k++ {
				o := sagain(it)
				c.Post = append(c.Post, o)
				if o[0] < 0 {
					break
				}
			}
		} else {
			err = seq.ForEach(it, func(v int) error { return callback(0, v) })
			if err != nil {
				// ForEach STOPS at the first error: the iterator still stands on the element that failed
				c.Post = append(c.Post, [3]int{2, 0, it.Value()})
			}
		}
	} else {
		it := buildP(t, env{0, 0})
		if m.K == "drain" {
			// the documented loop, Key() and Value() of the same position
			for has := it != nil; has; has = it.Next() {
				c.Obs = append(c.Obs, [2]int{it.Key(), it.Value()})
				if len(c.Obs) > limit {
					panic("no end")
				}
			}
			for k := 0; k < 2 && it != nil; k++ {
				o := pagain(it)
				c.Post = append(c.Post, o)
				if o[0] < 0 {
					break
				}
			}
		} else {
			err = pair.ForEach(it, callback)
			if err != nil {
				c.Post = append(c.Post, [3]int{2, it.Key(), it.Value()})
			}
		}
	}
	if err != nil {
		if ce, ok := err.(codeErr); ok {
			v := int(ce)
			c.Err = &v
		} else {
			v := -1
			c.Err = &v
			c.Why = "foreign error " + err.Error()
		}
	}
	return
}

// ------------------------------------------------------------------ alphabets

func key(p *Pred) *PPred { return &PPred{K: "key", P: p} }
func val(p *Pred) *PPred { return &PPred{K: "val", P: p} }

var ppreds = []*PPred{
	key(&Pred{K: "lt", C: 1002}), key(&Pred{K: "lt", C: 1004}), key(&Pred{K: "par", C: 1}),
	val(&Pred{K: "lt", C: 3}), val(&Pred{K: "ne", C: 2}), val(&Pred{K: "par", C: 0}),
	{K: "both", P: &Pred{K: "lt", C: 1005}, Q: &Pred{K: "par", C: 1}},
	{K: "diff", C: 1000}, {K: "diff", C: 1001},
	key(&Pred{K: "true"}), val(&Pred{K: "false"}),
}
var pmaps = []*PMap{
	{K: "val", M: &Mapc{K: "aff", A: 2, B: 1}}, {K: "key", M: &Mapc{K: "aff", A: 1, B: -990}},
	{K: "val", M: &Mapc{K: "const", A: 2}}, {K: "diff"}, {K: "mix"},
}
var pjoins = []string{"nil", "repl", "skew"}
var tsjoins = []string{"nil", "kv", "range"}
var fsjoins = []string{"nil", "pair", "two"}

func ssl(xs ...int) *Node         { return &Node{O: "sslice", Xs: xs} }
func ssh(xs ...int) *Node         { return &Node{O: "sshift", Xs: xs} }
func fsq(j string, s *Node) *Node { return &Node{O: "pfromseq", J: j, S: s} }

// plain sources
func sleaves() []*Node {
	return []*Node{{O: "sfrom", V: 2}, ssl(), ssl(3), ssl(1, 4), ssl(4, 1), ssl(1, 2, 3), ssl(2, 5, 2), ssl(6, 3, 0)}
}

// pair sources: From, FromSeq over every plain source, the join-argument leaf
func pleaves() []*Node {
	out := []*Node{{O: "pfrom", Kk: 1003, V: 3}, {O: "parg"}}
	for _, s := range sleaves() {
		out = append(out, fsq("pair", s))
	}
	out = append(out, fsq("two", ssl(1, 2, 3)), fsq("nil", ssl(1, 2)))
	return out
}

func pbodies() []*Node {
	return []*Node{
		{O: "parg"},
		{O: "pplus", L: &Node{O: "parg"}, R: &Node{O: "pfrom", Kk: 1009, V: 9}},
		{O: "pfilter", P: val(&Pred{K: "par", C: 0}), S: &Node{O: "parg"}},
		fsq("pair", ssh(0, 1)),
		fsq("two", ssh(0, 1, 2)),
		{O: "pmap", M: &PMap{K: "diff"}, S: fsq("pair", &Node{O: "sargk"})},
	}
}

func sbodies() []*Node {
	return []*Node{{O: "sargk"}, {O: "sargv"}, ssh(0, 1), ssl(), ssl(7, 8),
		{O: "stoseq", J: "kv", S: &Node{O: "pfilter", P: val(&Pred{K: "par", C: 1}), S: &Node{O: "parg"}}}}
}

// ------------------------------------------------------------------ join functions answering nil for SOME elements
//
// Join / FromSeq / ToSeq whose function is  if !guard(a, b) { return nil }; return <stopper> : the body is an
// expression that STOPS EARLY - TakeWhile / DropWhile / Filter with a non-monotone predicate over a sequence
// where the predicate fails in the middle and holds again later - and its neighbours (before, after, several in
// a row, at the end) are nil.

func md(m, r int) *Pred  { return &Pred{K: "mod", C: m, R: r} }
func in(xs ...int) *Pred { return &Pred{K: "in", Xs: xs} }

// which elements (1001,1) .. (1004,4) of the outer sequence get a body; the others get nil
var guards = []*PPred{
	val(&Pred{K: "ne", C: 2}),                              // nil between two bodies
	val(&Pred{K: "ne", C: 1}),                              // nil first
	val(&Pred{K: "lt", C: 3}),                              // nil for the last elements (several in a row, at the end)
	key(in(1001, 1004)),                                    // several nil in a row between two bodies
	val(in(3)),                                             // nil before (several in a row) and after
	val(in(4)),                                             // only the last element has a body
	val(&Pred{K: "par", C: 1}), key(&Pred{K: "par", C: 0}), // alternating
	val(md(3, 1)),
	{K: "both", P: &Pred{K: "lt", C: 1004}, Q: &Pred{K: "ne", C: 2}},
	val(&Pred{K: "false"}), key(&Pred{K: "true"}),
}

// non-monotone predicates on (key, value)
var holes = []*PPred{
	val(&Pred{K: "par", C: 0}), key(&Pred{K: "par", C: 1}), val(md(3, 1)), key(md(3, 0)),
	val(in(1, 2, 5, 6, 9)), {K: "both", P: &Pred{K: "ne", C: 1004}, Q: md(3, 1)},
}

func pun(o string, p *PPred, s *Node) *Node { return &Node{O: o, P: p, S: s} }
func pplus(l, r *Node) *Node                { return &Node{O: "pplus", L: l, R: r} }
func pwhen(p *PPred, s *Node) *Node         { return &Node{O: "pwhen", P: p, S: s} }
func swhen(p *PPred, s *Node) *Node         { return &Node{O: "swhen", P: p, S: s} }
func pjoine(b, s *Node) *Node               { return &Node{O: "pjoine", B: b, S: s} }
func pfromseqe(b, s *Node) *Node            { return &Node{O: "pfromseqe", B: b, S: s} }
func stoseqe(b, s *Node) *Node              { return &Node{O: "stoseqe", B: b, S: s} }

func pinner() []*Node {
	parg := &Node{O: "parg"}
	return []*Node{
		fsq("pair", ssh(0, 2, 1, 4)), fsq("pair", ssh(0, 1, 2, 3)), fsq("pair", ssl(1, 3, 2, 5)),
		pplus(parg, pplus(&Node{O: "pfrom", Kk: 1002, V: 2}, pplus(&Node{O: "pfrom", Kk: 1007, V: 7}, parg))),
		fsq("two", ssh(0, 1, 2, 3)),
	}
}

// the plain early-stopping bodies
func pstoppers0(srcs []*Node) []*Node {
	out := []*Node{}
	for _, src := range srcs {
		for _, o := range []string{"ptakew", "pdropw", "pfilter"} {
			for _, p := range holes {
				out = append(out, pun(o, p, src))
			}
		}
	}
	return out
}

func pstoppers() []*Node {
	out := pstoppers0(pinner())
	parg := &Node{O: "parg"}
	for _, src := range pinner()[:2] {
		for _, p := range holes[:3] {
			base := pun("ptakew", p, src)
			out = append(out,
				pplus(base, parg), pplus(parg, base), pplus(base, pun("pfilter", holes[3], fsq("pair", ssh(1, 3, 6)))),
				&Node{O: "pmap", M: &PMap{K: "diff"}, S: base},
				pun("ptakew", val(&Pred{K: "lt", C: 6}), base), pun("pfilter", val(&Pred{K: "ne", C: 3}), base),
				pun("pdropw", holes[1], pun("pfilter", p, src)),
				&Node{O: "pjoin", J: "repl", S: base},
				pjoine(pwhen(holes[1], fsq("pair", ssh(0, 1))), base),
				pfromseqe(pwhen(val(&Pred{K: "ne", C: 3}), pun("ptakew", p, fsq("pair", ssh(0, 2, 1)))), ssh(0, 1, 2)))
		}
	}
	return out
}

// plain-sequence bodies for ToSeq: slices, and ToSeq of an early-stopping pair expression
func sstoppers() []*Node {
	out := []*Node{ssh(0, 2, 1, 4), ssl(7, 8), {O: "sargk"}}
	for _, b := range pstoppers0(pinner()[:2]) {
		out = append(out, &Node{O: "stoseq", J: "kv", S: b}, &Node{O: "stoseq", J: "range", S: b},
			stoseqe(&Node{O: "sargv"}, b))
	}
	return out
}

func pouters() []*Node {
	return []*Node{fsq("pair", ssl(1, 2, 3)), fsq("pair", ssl(1, 2, 3, 4)), fsq("pair", ssl(2, 1, 4, 3))}
}

func souters() []*Node { return []*Node{ssl(1, 2, 3), ssl(1, 2, 3, 4), ssl(2, 1, 4, 3)} }

// visit every (outer, guard, body) of the alphabet for the three kinds of join
func nilJoins(visit func(kind int, t *Node)) {
	ps, ss := pstoppers(), sstoppers()
	for i := range pouters() {
		for _, g := range guards {
			for _, b := range ps {
				visit(0, pjoine(pwhen(g, b), pouters()[i]))
				visit(1, pfromseqe(pwhen(g, b), souters()[i]))
			}
			for _, b := range ss {
				visit(2, stoseqe(swhen(g, b), pouters()[i]))
			}
		}
	}
}

func clone(t *Node) *Node {
	if t == nil {
		return nil
	}
	c := *t
	c.buf = nil
	c.S, c.L, c.R, c.B = clone(t.S), clone(t.L), clone(t.R), clone(t.B)
	return &c
}

// every unary pair operator over a pair child
func punary(child *Node) []*Node {
	out := []*Node{}
	for _, o := range []string{"ptakew", "pdropw", "pfilter"} {
		for _, p := range ppreds {
			out = append(out, &Node{O: o, P: p, S: child})
		}
	}
	for _, m := range pmaps {
		out = append(out, &Node{O: "pmap", M: m, S: child})
	}
	for _, j := range pjoins {
		out = append(out, &Node{O: "pjoin", J: j, S: child})
	}
	for _, b := range pbodies() {
		out = append(out, &Node{O: "pjoine", B: b, S: child})
	}
	return out
}

// ToSeq over a pair child (plain results)
func toseqs(child *Node) []*Node {
	out := []*Node{}
	for _, j := range tsjoins {
		out = append(out, &Node{O: "stoseq", J: j, S: child})
	}
	for _, b := range sbodies() {
		out = append(out, &Node{O: "stoseqe", B: b, S: child})
	}
	return out
}

// FromSeq over a plain child
func fromseqs(child *Node) []*Node {
	out := []*Node{}
	for _, j := range fsjoins {
		out = append(out, &Node{O: "pfromseq", J: j, S: child})
	}
	for _, b := range pbodies() {
		out = append(out, &Node{O: "pfromseqe", B: b, S: child})
	}
	return out
}

// ------------------------------------------------------------------ random trees

type gen struct {
	rng    *rand.Rand
	maxLen int
}

func (g *gen) val() int { return g.rng.Intn(13) - 3 }

func (g *gen) slice() []int {
	n := g.rng.Intn(g.maxLen + 1)
	xs := make([]int, n)
	for i := range xs {
		xs[i] = g.val()
	}
	return xs
}

// a predicate that may fail in the middle of a sequence and hold again later
func (g *gen) hole(off int) *Pred {
	switch g.rng.Intn(6) {
	case 0:
		return &Pred{K: "par", C: g.rng.Intn(2)}
	case 1, 2:
		m := 2 + g.rng.Intn(3)
		return md(m, g.rng.Intn(m))
	case 3, 4:
		xs := []int{}
		for v := -3; v < 14; v++ {
			if g.rng.Intn(2) == 0 {
				xs = append(xs, off+v)
			}
		}
		return in(xs...)
	}
	return &Pred{K: "ne", C: off + g.val()}
}

func (g *gen) phole() *PPred {
	switch g.rng.Intn(5) {
	case 0, 1:
		return key(g.hole(1000))
	case 2, 3:
		return val(g.hole(0))
	}
	return &PPred{K: "both", P: g.pred(1000), Q: g.hole(0)}
}

func (g *gen) pred(off int) *Pred {
	if g.rng.Intn(4) == 0 {
		return g.hole(off)
	}
	switch g.rng.Intn(8) {
	case 0, 1:
		return &Pred{K: "lt", C: off + g.val()}
	case 2, 3:
		return &Pred{K: "ne", C: off + g.val()}
	case 4, 5:
		return &Pred{K: "par", C: g.rng.Intn(2)}
	case 6:
		return &Pred{K: "true"}
	}
	return &Pred{K: "false"}
}

func (g *gen) ppred() *PPred {
	switch g.rng.Intn(7) {
	case 0, 1:
		return key(g.pred(1000))
	case 2, 3:
		return val(g.pred(0))
	case 4, 5:
		return &PPred{K: "both", P: g.pred(1000), Q: g.pred(0)}
	}
	return &PPred{K: "diff", C: 995 + g.rng.Intn(10)}
}

func (g *gen) pmap() *PMap {
	switch g.rng.Intn(5) {
	case 0, 1:
		return &PMap{K: "val", M: &Mapc{K: "aff", A: g.rng.Intn(5) - 2, B: g.val()}}
	case 2:
		return &PMap{K: "key", M: &Mapc{K: "aff", A: 1, B: g.val() - 1000}}
	case 3:
		return &PMap{K: "diff"}
	}
	return &PMap{K: "mix"}
}

func (g *gen) stree(d int, inJoin bool) *Node {
	if d == 0 {
		switch k := g.rng.Intn(10); {
		case k < 1:
			return &Node{O: "sfrom", V: g.val()}
		case k < 7 || !inJoin:
			return &Node{O: "sslice", Xs: g.slice()}
		case k < 8:
			return &Node{O: "sargk"}
		case k < 9:
			return &Node{O: "sargv"}
		default:
			return &Node{O: "sshift", Xs: g.slice()}
		}
	}
	if g.rng.Intn(3) == 0 {
		bd := g.rng.Intn(2)
		if bd > d-1 {
			bd = d - 1
		}
		b := g.stree(bd, true)
		if g.rng.Intn(2) == 0 {
			b = swhen(g.ppred(), b)
		}
		return &Node{O: "stoseqe", B: b, S: g.ptree(d-1, inJoin)}
	}
	return &Node{O: "stoseq", J: tsjoins[g.rng.Intn(3)], S: g.ptree(d-1, inJoin)}
}

func (g *gen) ptree(d int, inJoin bool) *Node {
	if d == 0 {
		if inJoin && g.rng.Intn(2) == 0 {
			return &Node{O: "parg"}
		}
		v := g.val()
		return &Node{O: "pfrom", Kk: 1000 + v, V: v}
	}
	switch k := g.rng.Intn(20); {
	case k < 2:
		return &Node{O: "ptakew", P: g.ppred(), S: g.ptree(d-1, inJoin)}
	case k < 4:
		return &Node{O: "pdropw", P: g.ppred(), S: g.ptree(d-1, inJoin)}
	case k < 6:
		return &Node{O: "pfilter", P: g.ppred(), S: g.ptree(d-1, inJoin)}
	case k < 8:
		return &Node{O: "pmap", M: g.pmap(), S: g.ptree(d-1, inJoin)}
	case k < 11:
		a, b := g.ptree(d-1, inJoin), g.ptree(g.rng.Intn(d), inJoin)
		if g.rng.Intn(2) == 0 {
			a, b = b, a
		}
		return &Node{O: "pplus", L: a, R: b}
	case k < 13:
		return &Node{O: "pjoin", J: pjoins[g.rng.Intn(3)], S: g.ptree(d-1, inJoin)}
	case k < 14:
		bd := g.rng.Intn(3)
		if bd > d-1 {
			bd = d - 1
		}
		return &Node{O: "pjoine", B: g.body(bd), S: g.ptree(d-1, inJoin)}
	case k < 19:
		return &Node{O: "pfromseq", J: fsjoins[1+g.rng.Intn(2)], S: g.stree(d-1, inJoin)}
	default:
		bd := g.rng.Intn(3)
		if bd > d-1 {
			bd = d - 1
		}
		return &Node{O: "pfromseqe", B: g.body(bd), S: g.stree(d-1, inJoin)}
	}
}

// the body of a nested join function: every other one is conditional
func (g *gen) body(d int) *Node {
	b := g.ptree(d, true)
	if g.rng.Intn(2) == 0 {
		b = pwhen(g.ppred(), b)
	}
	return b
}

// a slice of n..n+2 values
func (g *gen) sliceN(n int) []int {
	xs := make([]int, n+g.rng.Intn(3))
	for i := range xs {
		xs[i] = g.val()
	}
	return xs
}

// a pair sequence of 3..5 elements (depending on the join argument two times out of three)
func (g *gen) psrc() *Node {
	switch g.rng.Intn(6) {
	case 0, 1:
		return fsq("pair", ssl(g.sliceN(3)...))
	case 2, 3, 4:
		return fsq("pair", ssh(g.sliceN(3)...))
	}
	t := &Node{O: "parg"}
	for i := 0; i < 3; i++ {
		var l *Node
		if g.rng.Intn(3) == 0 {
			l = &Node{O: "parg"}
		} else {
			v := g.val()
			l = &Node{O: "pfrom", Kk: 1000 + v, V: v}
		}
		t = pplus(l, t)
	}
	return t
}

var pstopOps = []string{"ptakew", "ptakew", "pdropw", "pfilter"}

// an expression over the join argument that stops early, composed d times with further operators
func (g *gen) pstopper(d int) *Node {
	if d == 0 {
		return pun(pstopOps[g.rng.Intn(4)], g.phole(), g.psrc())
	}
	b := g.pstopper(d - 1)
	switch g.rng.Intn(9) {
	case 0:
		return pplus(b, g.ptree(0, true))
	case 1:
		return pplus(g.ptree(0, true), b)
	case 2:
		return pplus(b, g.pstopper(0))
	case 3:
		return &Node{O: "pmap", M: g.pmap(), S: b}
	case 4:
		return pun(pstopOps[1+g.rng.Intn(3)], g.ppred(), b)
	case 5:
		return &Node{O: "pjoin", J: pjoins[1+g.rng.Intn(2)], S: b}
	case 6:
		return pjoine(pwhen(g.ppred(), g.pstopper(0)), b)
	case 7:
		return pfromseqe(pwhen(g.ppred(), g.pstopper(0)), g.sstopper(b))
	}
	return pwhen(g.ppred(), b)
}

// a plain sequence made of an early-stopping pair expression
func (g *gen) sstopper(b *Node) *Node {
	switch g.rng.Intn(3) {
	case 0:
		return &Node{O: "stoseq", J: tsjoins[1+g.rng.Intn(2)], S: b}
	case 1:
		return stoseqe(swhen(g.ppred(), g.stree(0, true)), b)
	}
	return stoseqe(g.stree(0, true), b)
}

// Join / FromSeq / ToSeq (outer, (a, b) -> guard(a, b) ? stopper : nil), bare or inside a small context
func (g *gen) nilJoin() *Node {
	var guard *PPred
	if g.rng.Intn(2) == 0 {
		guard = g.phole()
	} else {
		guard = g.ppred()
	}
	b := g.pstopper(g.rng.Intn(3))
	var t *Node
	switch g.rng.Intn(5) {
	case 0, 1:
		t = pjoine(pwhen(guard, b), fsq("pair", ssl(g.sliceN(2)...)))
	case 2, 3:
		t = pfromseqe(pwhen(guard, b), ssl(g.sliceN(2)...))
	default:
		return stoseqe(swhen(guard, g.sstopper(b)), fsq("pair", ssl(g.sliceN(2)...)))
	}
	switch g.rng.Intn(8) {
	case 0:
		return pplus(t, g.ptree(0, false))
	case 1:
		return pplus(g.ptree(0, false), t)
	case 2:
		return pun(pstopOps[1+g.rng.Intn(3)], g.ppred(), t)
	case 3:
		return pjoine(pwhen(g.ppred(), g.pstopper(0)), t)
	case 4:
		return g.sstopper(t)
	}
	return t
}

func (g *gen) mode(n int) Mode {
	switch g.rng.Intn(3) {
	case 0:
		return Mode{K: "pos", N: g.rng.Intn(n + 2)}
	case 1:
		return Mode{K: "pred", P: g.ppred()}
	}
	return Mode{K: "drain"}
}

// ------------------------------------------------------------------ main

func main() {
	seed, _ := strconv.ParseInt(os.Getenv("VERIF_SEED"), 10, 64)
	thorough := os.Getenv("VERIF_TIER") == "thorough"
	w := bufio.NewWriterSize(os.Stdout, 1<<20)
	defer w.Flush()
	enc := json.NewEncoder(w)
	emit := func(t *Node, m Mode, tag string) int {
		c := run(clone(t), m)
		c.Gen = tag
		if strings.HasPrefix(tag, "rnd") && (c.Why == "no end" || len(c.Obs) > maxObs || work > maxWork) {
			return -1
		}
		if err := enc.Encode(c); err != nil {
			fmt.Fprintln(os.Stderr, err)
			os.Exit(2)
		}
		return len(c.Obs)
	}

	if p := os.Getenv("VERIF_CASES"); p != "" {
		f, err := os.Open(p)
		if err != nil {
			fmt.Fprintln(os.Stderr, err)
			os.Exit(2)
		}
		sc := bufio.NewScanner(f)
		sc.Buffer(make([]byte, 1<<20), 1<<26)
		for sc.Scan() {
			var c Case
			if err := json.Unmarshal(sc.Bytes(), &c); err != nil {
				fmt.Fprintln(os.Stderr, err)
				os.Exit(2)
			}
			emit(c.Expr, c.Mode, "replay")
		}
		return
	}

	rng := rand.New(rand.NewSource(seed))
	drain := Mode{K: "drain"}
	cbs := []Mode{{K: "pos", N: 0}, {K: "pos", N: 1}, {K: "pos", N: 2}, {K: "pos", N: 99},
		{K: "pred", P: val(&Pred{K: "par", C: 0})}, {K: "pred", P: key(&Pred{K: "lt", C: 1003})},
		{K: "pred", P: &PPred{K: "diff", C: 1000}}}

	// exhaustive part.  Level 0: the pair sources (From, FromSeq(coded function) over every plain source).
	// Level 1: every unary pair operator over every source, Plus of any two sources.
	// Level 2: every unary pair operator over every level-1 tree, Plus(level 1, source) both ways, a sample of
	// Plus(level 1, level 1); ToSeq (coded and nested functions) over every level <= 1 tree and over a sample of
	// level 2; FromSeq (coded and nested functions) over every ToSeq of a level <= 1 tree (sampled in the quick tier).
	l0 := pleaves()
	d1 := []*Node{}
	for _, c := range l0 {
		d1 = append(d1, punary(c)...)
	}
	for _, a := range l0 {
		for _, b := range l0 {
			d1 = append(d1, &Node{O: "pplus", L: a, R: b})
		}
	}
	all := func(t *Node, tag string) {
		emit(t, drain, tag)
		for _, m := range cbs {
			emit(t, m, tag)
		}
	}
	for _, t := range l0 {
		all(t, "exh0")
		for _, s := range toseqs(t) {
			all(s, "exh0s")
		}
	}
	ts1 := []*Node{}
	for _, t := range d1 {
		all(t, "exh1")
		for _, s := range toseqs(t) {
			emit(s, drain, "exh1s")
			if thorough || rng.Intn(6) == 0 {
				emit(s, cbs[rng.Intn(len(cbs))], "exh1s")
			}
			ts1 = append(ts1, s)
		}
	}
	for _, s := range ts1 {
		if !thorough && rng.Intn(4) != 0 {
			continue
		}
		for _, t := range fromseqs(s) {
			emit(t, drain, "exh2f")
		}
	}
	for _, c := range d1 {
		for _, t := range punary(c) {
			emit(t, drain, "exh2")
			if thorough || rng.Intn(8) == 0 {
				emit(t, cbs[rng.Intn(len(cbs))], "exh2")
			}
			if thorough || rng.Intn(16) == 0 {
				ss := toseqs(t)
				emit(ss[rng.Intn(len(ss))], drain, "exh2s")
			}
		}
		for _, b := range l0 {
			emit(&Node{O: "pplus", L: c, R: b}, drain, "exh2")
			emit(&Node{O: "pplus", L: b, R: c}, drain, "exh2")
		}
	}
	pairs := 3000
	if thorough {
		pairs = 40000
	}
	for i := 0; i < pairs; i++ {
		t := &Node{O: "pplus", L: d1[rng.Intn(len(d1))], R: d1[rng.Intn(len(d1))]}
		emit(t, drain, "exh2p")
	}

	// join functions answering nil for some elements and an early-stopping expression for the others:
	// every (outer, guard, stopper) of the alphabet under Join (quick tier: FromSeq and ToSeq sampled),
	// a sample of them inside a further operator
	g := &gen{rng: rng, maxLen: 3}
	nilJoins(func(kind int, t *Node) {
		if !thorough && kind != 0 && rng.Intn(3) != 0 {
			return
		}
		emit(t, drain, "nilj")
		if thorough || rng.Intn(4) == 0 {
			emit(t, cbs[rng.Intn(len(cbs))], "nilj")
		}
		if kind != 2 && (thorough || rng.Intn(8) == 0) {
			us := punary(t)
			emit(us[rng.Intn(len(us))], drain, "nilj2")
			b := l0[rng.Intn(len(l0))]
			if rng.Intn(2) == 0 {
				emit(pplus(t, b), drain, "nilj2")
			} else {
				emit(pplus(b, t), drain, "nilj2")
			}
			ss := toseqs(t)
			emit(ss[rng.Intn(len(ss))], drain, "nilj2")
		}
	})
	nn := 4000
	if thorough {
		nn = 50000
	}
	limit = maxObs + 1
	for i := 0; i < nn; i++ {
		t := g.nilJoin()
		k := emit(t, drain, "rndnil")
		if k >= 0 && i%4 == 0 {
			emit(t, g.mode(k), "rndnil")
		}
	}

	// random trees mixing both sorts, depth 3..6 (thorough: ..7, longer slices)
	n, maxd := 4000, 6
	if thorough {
		g.maxLen = 6
		n, maxd = 60000, 7
	}
	limit = maxObs + 1
	for i := 0; i < n; i++ {
		d := 3 + rng.Intn(maxd-2)
		var t *Node
		if i%4 == 0 {
			t = g.stree(d, false)
		} else {
			t = g.ptree(d, false)
		}
		k := emit(t, drain, "rnd")
		if k < 0 {
			continue
		}
		if i%2 == 0 {
			emit(t, g.mode(k), "rnd")
		}
	}
}
