// Harness for C19: runs scripts of New/Cons/Tail/Head/Length/IsEmpty/Fold on the real
// linked-list and slice sequence traits (staged copy of /repo/internal/seq) over a store of at
// most three sequences.  After EVERY operation every live sequence is re-read element by
// element through Head/Tail/IsEmpty (never mutating), together with Length, IsEmpty and
// Foldable.Fold under two non-commutative monoids.  One JSON case per line on stdout.
package main

import (
	"bufio"
	"encoding/json"
	"fmt"
	"math"
	"math/rand"
	"os"
	"strconv"
	"sync/atomic"
	"time"

	"github.com/fogfish/golem/pure/monoid"
	"github.com/fogfish/golem/seq"
	"github.com/fogfish/golem/seq/list"
	"github.com/fogfish/golem/seq/slice"
)

const (
	maxLen   = 12 // longest sequence a script builds: 31^12 * 9 < 2^63 and 12 decimal digits fit
	walkFuel = 64
	slots    = 3
)

type Op struct {
	Op    string  `json:"op"`
	D     int     `json:"d"`
	I     int     `json:"i"`
	X     int64   `json:"x"`
	Xs    []int64 `json:"xs"`
	Spare int     `json:"spare"`
	M     int     `json:"m"`
}

type Res struct {
	K string `json:"k"` // done | val | bool | panic
	V int64  `json:"v"`
	B bool   `json:"b"`
}

type Snap struct {
	E     []int64  `json:"e"`
	Ok    bool     `json:"ok"`
	Len   int64    `json:"len"`
	Empty bool     `json:"empty"`
	F     []*int64 `json:"f"` // Fold under monoid 0 and 1; null = panic
}

type Step struct {
	R Res    `json:"r"`
	S []Snap `json:"s"`
}

type Case struct {
	Kind   string `json:"kind"`
	Script []Op   `json:"script"`
	List   []Step `json:"list"`
	Slice  []Step `json:"slice"`
}

// ---- monoids: both non-commutative; arithmetic is checked, an overflow aborts the harness ----

var overflow bool
var combines int

func checked(f func(a, b int64) int64) func(a, b int64) int64 {
	return func(a, b int64) int64 {
		combines++
		if combines > 4096 {
			panic("runaway fold")
		}
		return f(a, b)
	}
}

// a*31 + b : neither commutative nor associative - pins the exact left-to-right shape of the fold
func m31(a, b int64) int64 {
	if a > (math.MaxInt64-b)/31 || a < 0 || b < 0 {
		overflow = true
		return 0
	}
	return a*31 + b
}

// concatenation of decimal digit strings (0 is the empty string): a genuine non-commutative monoid
func cat10(a, b int64) int64 {
	p := int64(1)
	for b >= p {
		if p > math.MaxInt64/10 {
			overflow = true
			return 0
		}
		p *= 10
	}
	if a < 0 || b < 0 || (a != 0 && a > (math.MaxInt64-b)/p) {
		overflow = true
		return 0
	}
	return a*p + b
}

var monoids = []monoid.Monoid[int64]{
	monoid.FromOp[int64](7, checked(m31)), // the empty element is NOT the zero value: a Fold that starts from the zero value is visible
	monoid.FromOp[int64](0, checked(cat10)),
}

// ---- running a script on one implementation ----

func try(f func()) (panicked bool) {
	defer func() {
		if r := recover(); r != nil {
			panicked = true
		}
	}()
	f()
	return false
}

func snapshot[F any](t seq.Seq[F, int64], s F) Snap {
	sn := Snap{E: []int64{}, Ok: true, F: make([]*int64, len(monoids))}
	// element by element, the way a client reads a persistent sequence
	if try(func() {
		c := s
		for i := 0; i < walkFuel && !t.IsEmpty(c); i++ {
			sn.E = append(sn.E, t.Head(c))
			c = t.Tail(c)
		}
		if !t.IsEmpty(c) {
			sn.Ok = false
		}
	}) {
		sn.Ok = false
	}
	if try(func() { sn.Len = int64(t.Length(s)); sn.Empty = t.IsEmpty(s) }) {
		sn.Ok = false
	}
	fd := seq.Foldable[F, int64]{Seq: t}
	for k, m := range monoids {
		var v int64
		combines = 0
		if !try(func() { v = fd.Fold(m, s) }) {
			w := v
			sn.F[k] = &w
		}
	}
	return sn
}

func run[F any](t seq.Seq[F, int64], script []Op) []Step {
	store := []F{}
	put := func(d int, s F) {
		if d == len(store) {
			store = append(store, s)
		} else {
			store[d] = s
		}
	}
	out := []Step{}
	for _, o := range script {
		r := Res{K: "done"}
		switch o.Op {
		case "new":
			var s F
			if len(o.Xs) == 0 && o.Spare == 0 {
				s = t.New()
			} else {
				buf := make([]int64, len(o.Xs), len(o.Xs)+o.Spare)
				copy(buf, o.Xs)
				s = t.New(buf...)
			}
			put(o.D, s)
		case "cons":
			var s F
			if try(func() { s = t.Cons(o.X, store[o.I]) }) {
				r.K = "panic"
			} else {
				put(o.D, s)
			}
		case "tail":
			var s F
			if try(func() { s = t.Tail(store[o.I]) }) {
				r.K = "panic"
			} else {
				put(o.D, s)
			}
		case "head":
			if try(func() { r.V = t.Head(store[o.I]) }) {
				r.K = "panic"
			} else {
				r.K = "val"
			}
		case "length":
			r.K, r.V = "val", int64(t.Length(store[o.I]))
		case "isempty":
			r.K, r.B = "bool", t.IsEmpty(store[o.I])
		case "fold":
			combines = 0
			fd := seq.Foldable[F, int64]{Seq: t}
			if try(func() { r.V = fd.Fold(monoids[o.M], store[o.I]) }) {
				r.K = "panic"
			} else {
				r.K = "val"
			}
		default:
			panic("op " + o.Op)
		}
		st := Step{R: r, S: make([]Snap, len(store))}
		for i := range store {
			st.S[i] = snapshot(t, store[i])
		}
		out = append(out, st)
	}
	return out
}

var w *bufio.Writer

func emit(kind string, script []Op) {
	c := Case{Kind: kind, Script: script}
	c.List = run[list.Seq[int64]](list.Trait[int64]("seq.int64"), script)
	c.Slice = run[slice.Seq[int64]](slice.Trait[int64]("seq.int64"), script)
	b, err := json.Marshal(c)
	if err != nil {
		fmt.Fprintln(os.Stderr, err)
		os.Exit(2)
	}
	w.Write(b)
	w.WriteByte('\n')
}

// ---- volume: one long New(...), then Fold under the affine monoid and Length, on both traits ----
// The operation takes its time on the FIRST element only (a fold that works on several parts of the sequence at once
// finishes the later parts first) and counts its calls with an atomic (it may be called from several goroutines by a
// library that does so).

const vp = 65521

var (
	vcalls atomic.Int64
	vlimit int64
	vfirst int64 = 3 * vp
)

func aff(u, v int64) int64 {
	if vcalls.Add(1) > vlimit {
		panic("runaway fold")
	}
	if v == vfirst {
		time.Sleep(2 * time.Millisecond)
	}
	return ((u/vp)*(v/vp)%vp)*vp + ((u%vp)*(v/vp)+v%vp)%vp
}

func vlist(n int, a0 int64) []int64 {
	xs := []int64{vfirst}
	for i := int64(0); i < int64(n); i++ {
		k := a0 + i
		xs = append(xs, (2+k%5)*vp+(1+k%7))
	}
	return xs
}

func volumeOn[F any](t seq.Seq[F, int64], xs []int64) (fold, length int64) {
	fold, length = -1, -1 // a panic is reported as -1 (no fold under this monoid is negative)
	vcalls.Store(0)
	vlimit = int64(4*len(xs) + 64)
	try(func() {
		s := t.New(append([]int64(nil), xs...)...)
		fd := seq.Foldable[F, int64]{Seq: t}
		fold = fd.Fold(monoid.FromOp[int64](vp, aff), s)
		length = int64(t.Length(s))
	})
	return
}

func emitVolume(n int, a0 int64) {
	xs := vlist(n, a0)
	fl, ll := volumeOn[list.Seq[int64]](list.Trait[int64]("seq.int64"), xs)
	fs, ls := volumeOn[slice.Seq[int64]](slice.Trait[int64]("seq.int64"), xs)
	b, _ := json.Marshal(map[string]any{"kind": "volume", "vol": []int64{int64(n), a0, fl, fs, ll, ls}, "script": []Op{}, "list": []Step{}, "slice": []Step{}})
	w.Write(b)
	w.WriteByte('\n')
}

// ---- script generation: the generator tracks only the LENGTHS the ADT prescribes (to stay
// within maxLen and to know which slots exist); it never looks at what the code answered ----

type newVariant struct{ n, spare int }

var newVariants = []newVariant{{0, 0}, {1, 0}, {2, 0}, {1, 2}, {0, 1}}

func digit(counter *int) int64 {
	*counter++
	return int64((*counter-1)%9 + 1)
}

func dests(n int, all bool, step int) []int {
	if n < slots {
		return []int{n}
	}
	if all {
		return []int{0, 1, 2}
	}
	return []int{step % slots}
}

// all scripts of exactly `depth` operations (constructors, Head, Tail incl. the failing ones);
// Length/IsEmpty/Fold of every live sequence are observed after every operation anyway
func enumerate(depth int, allDest bool, script []Op, lens []int, counter int) {
	if len(script) == depth {
		emit("exhaustive", append([]Op{}, script...))
		return
	}
	step := len(script)
	withPut := func(o Op, newLen int) {
		for _, d := range dests(len(lens), allDest, step) {
			o.D = d
			nl := append([]int{}, lens...)
			if d == len(nl) {
				nl = append(nl, newLen)
			} else {
				nl[d] = newLen
			}
			c := counter
			if o.Op == "new" {
				o.Xs = []int64{}
				for k := 0; k < newLen; k++ {
					o.Xs = append(o.Xs, digit(&c))
				}
			}
			if o.Op == "cons" {
				o.X = digit(&c)
			}
			enumerate(depth, allDest, append(script, o), nl, c)
		}
	}
	for _, v := range newVariants {
		withPut(Op{Op: "new", Spare: v.spare}, v.n)
	}
	for i, l := range lens {
		withPut(Op{Op: "cons", I: i}, l+1)
		if l > 0 {
			withPut(Op{Op: "tail", I: i}, l-1)
		} else {
			enumerate(depth, allDest, append(script, Op{Op: "tail", I: i, D: i}), lens, counter)
		}
		enumerate(depth, allDest, append(script, Op{Op: "head", I: i}), lens, counter)
	}
}

func random(rng *rand.Rand, n int) []Op {
	script := []Op{}
	lens := []int{}
	for len(script) < n {
		var o Op
		k := rng.Intn(100)
		if len(lens) == 0 || k < 12 {
			m := rng.Intn(5)
			if rng.Intn(5) == 0 {
				m = 5 + rng.Intn(maxLen-4) // long argument lists too (New is variadic: any number of elements)
			}
			o = Op{Op: "new", Spare: rng.Intn(4), Xs: []int64{}}
			for j := 0; j < m; j++ {
				o.Xs = append(o.Xs, int64(rng.Intn(9)+1))
			}
		} else {
			i := rng.Intn(len(lens))
			switch {
			case k < 45:
				o = Op{Op: "cons", I: i, X: int64(rng.Intn(9) + 1)}
				if lens[i] >= maxLen {
					o = Op{Op: "tail", I: i}
				}
			case k < 65:
				o = Op{Op: "tail", I: i}
			case k < 75:
				o = Op{Op: "head", I: i}
			case k < 82:
				o = Op{Op: "length", I: i}
			case k < 88:
				o = Op{Op: "isempty", I: i}
			default:
				o = Op{Op: "fold", I: i, M: rng.Intn(len(monoids))}
			}
		}
		// destination: a fresh slot while there is room, otherwise (or by choice) any slot - also the source
		d := len(lens)
		if d >= slots || (d > 0 && rng.Intn(3) == 0) {
			d = rng.Intn(len(lens))
		}
		switch o.Op {
		case "new", "cons", "tail":
			o.D = d
			nl := -1
			switch o.Op {
			case "new":
				nl = len(o.Xs)
			case "cons":
				nl = lens[o.I] + 1
			case "tail":
				if lens[o.I] > 0 {
					nl = lens[o.I] - 1
				}
			}
			if nl >= 0 {
				if d == len(lens) {
					lens = append(lens, nl)
				} else {
					lens[d] = nl
				}
			}
		}
		script = append(script, o)
	}
	return script
}

func main() {
	seed, _ := strconv.ParseInt(os.Getenv("VERIF_SEED"), 10, 64)
	thorough := os.Getenv("VERIF_TIER") == "thorough"
	w = bufio.NewWriterSize(os.Stdout, 1<<20)
	defer w.Flush()

	if rp := os.Getenv("VERIF_REPLAY"); rp != "" {
		// one script per line (JSON arrays of ops) on stdin
		sc := bufio.NewScanner(os.Stdin)
		sc.Buffer(make([]byte, 1<<20), 1<<26)
		for sc.Scan() {
			var script []Op
			var vol struct {
				Vol []int64 `json:"vol"`
			}
			if json.Unmarshal(sc.Bytes(), &vol) == nil && len(vol.Vol) >= 2 {
				emitVolume(int(vol.Vol[0]), vol.Vol[1])
				continue
			}
			if err := json.Unmarshal(sc.Bytes(), &script); err != nil {
				fmt.Fprintln(os.Stderr, err)
				os.Exit(2)
			}
			emit("replay", script)
		}
	} else {
		for depth := 1; depth <= 3; depth++ {
			enumerate(depth, true, nil, nil, 0)
		}
		enumerate(4, true, nil, nil, 0)
		nrand := 150
		if thorough {
			enumerate(5, false, nil, nil, 0)
			nrand = 3000
		}
		rng := rand.New(rand.NewSource(seed))
		for k := 0; k < nrand; k++ {
			emit("random", random(rng, 20+rng.Intn(41)))
		}
	}
	if os.Getenv("VERIF_REPLAY") == "" {
		// long sequences (New takes any number of elements, Fold any length): around the powers of two and beyond
		vr := rand.New(rand.NewSource(seed + 77))
		sizes := []int{200, 255, 256, 1022, 1023, 1024, 2047, 2500, 4095, 4200}
		if thorough {
			sizes = append(sizes, 511, 512, 8191, 8192, 10000, 20000)
		}
		for _, n := range sizes {
			emitVolume(n, int64(vr.Intn(35)))
		}
	}
	if overflow {
		// with the sequences the scripts build (at most maxLen elements) no fold overflows; a library that makes
		// sequences longer than they should be can get here: the fold is then reported as 0 and judged like any
		// other answer (the model computes in Z), the harness itself does not fail
		fmt.Fprintln(os.Stderr, "note: int64 overflow in a fold (reported as 0)")
	}
}
