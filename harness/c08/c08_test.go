//go:build verif

// Harness for C08 (pipe.New, the unbounded channel).
//
// (a) pump: each case runs inside one testing/synctest bubble. A single driver goroutine performs the
// planned environment moves as NON-BLOCKING attempts and calls synctest.Wait() after every move, so the
// pump goroutine is durably blocked (or gone) at every observation. Plan alphabet:
//
//	S  select { case snd <- x: default: }   (x = 1, 2, 3 ... one fresh value per attempt)
//	R  select { case v, ok := <-rcv: default: }
//	C  cancel()
//	X  close(snd)
//	s r c x  the same moves NOT followed by synctest.Wait(): the next move meets the pump wherever it is
//	         (this is how a value is still parked in the input buffer when the cancel arrives)
//
// After the plan an epilogue ends the stream (cancel unless cancelled/closed already) and receives until
// the receive side reports closed (or an attempt would block). Recorded per move: done / blocked / val v /
// closed / crash (a panic in the driver itself, e.g. close of a channel the pump closed).
// A panic in the pump goroutine kills the process: the runner sees which case had begun and re-runs it
// alone with VERIF_TRACE=1 to learn how far it got.
//
// (b) queue: long random histories of enq/deq/head/emit on the real linked queue (queue.go), reached through
// exported wrappers that `go test -overlay` maps into package pipe (verif_export.go.src).
//
// Output: JSON lines into $VERIF_OUT. VERIF_FROM=i skips cases with index < i; VERIF_CASES=<file> runs exactly
// the listed pump plans ({"cap":c,"plan":"SSRC"}).
package c08

import (
	"bufio"
	"context"
	"encoding/json"
	"errors"
	"fmt"
	"math/rand"
	"os"
	"runtime"
	"strconv"
	"sync/atomic"
	"testing"
	"testing/synctest"
	"time"

	"github.com/fogfish/golem/pipe/v2"
)

type Step struct {
	K  string `json:"k"`
	X  int    `json:"x,omitempty"`
	O  string `json:"o"`
	V  int    `json:"v,omitempty"`
	NW bool   `json:"nw,omitempty"` // this move was NOT followed by synctest.Wait()
}

type Line struct {
	Begin *int    `json:"begin,omitempty"`
	Trace *int    `json:"t,omitempty"`
	Idx   *int    `json:"idx,omitempty"`
	Layer string  `json:"layer,omitempty"`
	Kind  string  `json:"kind,omitempty"` // exhaustive | random | listed
	Cap   int     `json:"cap"`
	Cin   int     `json:"cin"`
	Ceg   int     `json:"ceg"`
	Plan  string  `json:"plan,omitempty"`
	Steps []Step  `json:"steps,omitempty"`
	Step  *Step   `json:"step,omitempty"`
	Ops   [][]int `json:"ops,omitempty"`
}

var out *os.File

func emitLine(l *Line) {
	b, err := json.Marshal(l)
	if err != nil {
		panic(err)
	}
	b = append(b, '\n')
	if _, err := out.Write(b); err != nil { // unbuffered on purpose: must be on disk before a crash
		panic(err)
	}
}

func runPump(t *testing.T, capacity int, plan string, trace func(Step)) (steps []Step, cin, ceg int) {
	// library goroutines that never exit make synctest.Test panic AFTER the observations were taken
	defer func() { _ = recover() }()
	synctest.Test(t, func(t *testing.T) {
		ctx, cancel := context.WithCancel(context.Background())
		defer cancel()
		rcv, snd := pipe.New[int](ctx, capacity)
		cin, ceg = cap(snd), cap(rcv)
		rec := func(s Step) {
			steps = append(steps, s)
			if trace != nil {
				trace(s)
			}
		}
		synctest.Wait()
		rec(Step{K: "init", O: "done"})
		next, nsent := 1, 0
		cancelled, closed, seen, dead := false, false, false, false
		do := func(k byte) (blocked bool) {
			st := Step{}
			if k >= 'a' {
				st.NW = true
				k -= 'a' - 'A'
			}
			func() {
				defer func() {
					if r := recover(); r != nil {
						st.O = "crash"
						dead = true
					}
				}()
				switch k {
				case 'S':
					st.K, st.X = "send", next
					next++
					select {
					case snd <- st.X:
						st.O = "done"
						nsent++
					default:
						st.O = "blocked"
					}
				case 'R':
					st.K = "recv"
					select {
					case v, ok := <-rcv:
						if ok {
							st.O, st.V = "val", v
						} else {
							st.O = "closed"
							seen = true
						}
					default:
						st.O = "blocked"
					}
				case 'C':
					st.K = "cancel"
					cancel()
					cancelled = true
					st.O = "done"
				case 'X':
					st.K = "close"
					close(snd)
					closed = true
					st.O = "done"
				}
			}()
			if !st.NW {
				synctest.Wait()
			}
			rec(st)
			return st.O == "blocked"
		}
		for i := 0; i < len(plan) && !dead; i++ {
			k := plan[i]
			if closed && (k == 'S' || k == 'X' || k == 's' || k == 'x') {
				continue // a sender neither sends after its close nor closes twice
			}
			do(k)
		}
		if !dead && !cancelled && !closed {
			do('C')
		}
		for i := 0; i < nsent+2 && !seen && !dead; i++ {
			if do('R') {
				break
			}
		}
		// instances share nothing: an unbounded channel of ANOTHER element type works right after this one has recycled
		// whatever it recycles (and before the next case starts); what goes wrong with it is a crash of this case
		if !dead && !neighbour(capacity) {
			rec(Step{K: "recv", O: "crash"})
		}
	})
	return
}

// neighbour: three strings through pipe.New[string], then cancel; false when they do not arrive as sent
func neighbour(capacity int) (ok bool) {
	defer func() {
		if recover() != nil {
			ok = false
		}
	}()
	ctx, cancel := context.WithCancel(context.Background())
	defer cancel()
	rcv, snd := pipe.New[string](ctx, capacity)
	want := []string{"a", "b", "c"}
	for _, v := range want {
		snd <- v
	}
	synctest.Wait()
	for _, v := range want {
		if got := <-rcv; got != v {
			return false
		}
	}
	// and one whose elements are interface values, the nil interface among them: a value like any other
	ectx, ecancel := context.WithCancel(context.Background())
	defer ecancel()
	ercv, esnd := pipe.New[error](ectx, capacity)
	e1, e2 := errors.New("e1"), errors.New("e2")
	ewant := []error{nil, e1, nil, nil, e2}
	for _, v := range ewant {
		esnd <- v
	}
	synctest.Wait()
	for _, v := range ewant {
		if got := <-ercv; got != v {
			return false
		}
	}
	return true
}

// all plans of length n over S R C X with at most one C, at most one X and no S after X
func plans(n int, f func(string)) {
	var rec func(p []byte, c, x bool)
	rec = func(p []byte, c, x bool) {
		if len(p) == n {
			f(string(p))
			return
		}
		if !x {
			rec(append(p, 'S'), c, x)
		}
		rec(append(p, 'R'), c, x)
		if !c {
			rec(append(p, 'C'), true, x)
		}
		if !x {
			rec(append(p, 'X'), c, true)
		}
	}
	rec(make([]byte, 0, n), false, false)
}

// plans of length n with one or two un-waited moves (lower case), never as the last move
func racyPlans(n int, f func(string)) {
	plans(n, func(p string) {
		b := []byte(p)
		for i := 0; i+1 < n; i++ {
			b[i] += 'a' - 'A'
			f(string(b))
			for j := i + 1; j+1 < n; j++ {
				b[j] += 'a' - 'A'
				f(string(b))
				b[j] -= 'a' - 'A'
			}
			b[i] -= 'a' - 'A'
		}
	})
}

func randomPlan(rng *rand.Rand) string {
	p := []byte{}
	rounds := 3 + rng.Intn(6)
	for r := 0; r < rounds; r++ {
		k := 1 + rng.Intn(15)
		var j int
		switch rng.Intn(4) {
		case 0:
			j = 0
		case 1:
			j = k / 2
		default:
			j = k + 1 + rng.Intn(3) // drains to empty, the last attempts block
		}
		seg := []byte{}
		for i := 0; i < k; i++ {
			seg = append(seg, 'S')
		}
		for i := 0; i < j; i++ {
			seg = append(seg, 'R')
		}
		if rng.Intn(2) == 0 {
			rng.Shuffle(len(seg), func(a, b int) { seg[a], seg[b] = seg[b], seg[a] })
		}
		p = append(p, seg...)
	}
	switch rng.Intn(4) {
	case 0:
		p = append(p, 'C')
		for i := rng.Intn(4); i > 0; i-- {
			p = append(p, 'S')
		}
	case 1:
		p = append(p, 'X')
	case 2:
		p = append(p, 'X', 'R', 'C')
	}
	return string(p)
}

// a long backlog behind a receiver that took a few values and then stalled: a growing buffer grows (more than once)
// while its read position is not at the start
func backlogPlan(rng *rand.Rand) string {
	p := []byte{}
	for cycle := 1 + rng.Intn(2); cycle > 0; cycle-- {
		w := 1 + rng.Intn(8)
		for i := 0; i < w; i++ {
			p = append(p, 'S')
		}
		for i := 1 + rng.Intn(w); i > 0; i-- {
			p = append(p, 'R')
		}
		b := 60 + rng.Intn(140)
		for i := 0; i < b; i++ {
			p = append(p, 'S')
		}
		for i := rng.Intn(b + w + 3); i > 0; i-- {
			p = append(p, 'R')
		}
	}
	switch rng.Intn(3) {
	case 0:
		p = append(p, 'C')
	case 1:
		p = append(p, 'X')
	}
	return string(p)
}

// burstPlan: a backlog beyond any plausible internal threshold, drained completely, then the channel is used again
// (whatever the queue releases or recycles when it runs empty, the next value goes through as the first one did)
func burstPlan(rng *rand.Rand) string {
	p := []byte{}
	b := []int{130, 257, 300, 520, 1030}[rng.Intn(5)] + rng.Intn(9)
	for i := 0; i < b; i++ {
		p = append(p, 'S')
	}
	for i := 0; i < b+1; i++ {
		p = append(p, 'R')
	}
	for cycle := 1 + rng.Intn(3); cycle > 0; cycle-- {
		w := 1 + rng.Intn(5)
		for i := 0; i < w; i++ {
			p = append(p, 'S')
		}
		for i := 0; i < w+1; i++ {
			p = append(p, 'R')
		}
	}
	switch rng.Intn(3) {
	case 0:
		p = append(p, 'C')
	case 1:
		p = append(p, 'X')
	}
	return string(p)
}

func runQueue(rng *rand.Rand, n int) (ops [][]int) {
	q := pipe.VerifNewQ[int]()
	size := 0
	filling := true
	for len(ops) < n {
		if size == 0 {
			filling = true
		} else if size > 5+rng.Intn(60) {
			filling = false
		} else if rng.Intn(50) == 0 {
			filling = !filling
		}
		r := rng.Intn(100)
		switch {
		case r < 8:
			ops = append(ops, []int{2, q.Head()})
		case r < 16:
			ops = append(ops, []int{3, q.Emit()})
		case (filling && r < 80) || (!filling && r < 35) || size == 0:
			x := rng.Intn(2000001) - 1000000
			q.Enq(x)
			size++
			ops = append(ops, []int{0, x})
		default:
			crashed := false
			v := 0
			func() {
				defer func() {
					if r := recover(); r != nil {
						crashed = true
					}
				}()
				v = q.Deq()
			}()
			if crashed {
				ops = append(ops, []int{4, 0})
				return
			}
			size--
			ops = append(ops, []int{1, v})
		}
	}
	return
}

// wall-clock watchdog (outside every synctest bubble): a library goroutine that spins keeps its bubble from ever
// becoming idle, so the case would hang until the test timeout; it is reported as a crash of the case instead
var caseStart atomic.Int64

func watchdog(limit time.Duration) {
	for {
		time.Sleep(500 * time.Millisecond)
		if t0 := caseStart.Load(); t0 != 0 && time.Since(time.Unix(0, t0)) > limit {
			fmt.Fprintf(os.Stderr, "panic: watchdog: the case did not finish within %v of real time (a goroutine spins or never lets the bubble idle)\n", limit)
			os.Exit(2)
		}
	}
}

func TestC08(t *testing.T) {
	go watchdog(20 * time.Second)
	seed, _ := strconv.ParseInt(os.Getenv("VERIF_SEED"), 10, 64)
	rng := rand.New(rand.NewSource(seed))
	from, _ := strconv.Atoi(os.Getenv("VERIF_FROM"))
	trace := os.Getenv("VERIF_TRACE") != ""
	thorough := os.Getenv("VERIF_TIER") == "thorough"
	var err error
	out, err = os.OpenFile(os.Getenv("VERIF_OUT"), os.O_CREATE|os.O_WRONLY|os.O_APPEND, 0o644)
	if err != nil {
		t.Fatal(err)
	}
	defer out.Close()

	idx := 0
	pump := func(kind string, capacity int, plan string) {
		i := idx
		idx++
		if i < from {
			return
		}
		emitLine(&Line{Begin: &i, Layer: "pump", Kind: kind, Cap: capacity, Plan: plan})
		caseStart.Store(time.Now().UnixNano())
		defer caseStart.Store(0)
		var tr func(Step)
		if trace {
			tr = func(s Step) { emitLine(&Line{Trace: &i, Step: &s}) }
		}
		steps, cin, ceg := runPump(t, capacity, plan, tr)
		emitLine(&Line{Idx: &i, Layer: "pump", Kind: kind, Cap: capacity, Cin: cin, Ceg: ceg, Plan: plan, Steps: steps})
	}

	if p := os.Getenv("VERIF_CASES"); p != "" {
		f, err := os.Open(p)
		if err != nil {
			t.Fatal(err)
		}
		defer f.Close()
		sc := bufio.NewScanner(f)
		sc.Buffer(make([]byte, 1<<20), 1<<26)
		for sc.Scan() {
			if len(sc.Bytes()) == 0 {
				continue
			}
			var l Line
			if err := json.Unmarshal(sc.Bytes(), &l); err != nil {
				t.Fatal(err)
			}
			pump("listed", l.Cap, l.Plan)
		}
		return
	}

	maxLen := 7
	nRandom, nQueue, qOps, nBacklog := 200, 6, 10000, 24
	if thorough {
		maxLen = 9
		nRandom, nQueue, qOps, nBacklog = 1500, 12, 100000, 200
	}
	if v, err := strconv.Atoi(os.Getenv("VERIF_C08_MAXLEN")); err == nil {
		maxLen = v
	}
	for capacity := 0; capacity <= 3; capacity++ {
		for n := 0; n <= maxLen; n++ {
			plans(n, func(p string) { pump("exhaustive", capacity, p) })
		}
	}
	// un-waited moves; one P so that the driver reaches the next move before the woken pump runs
	racyLen := 4
	if thorough {
		racyLen = 6
	}
	prev := runtime.GOMAXPROCS(1)
	for capacity := 0; capacity <= 3; capacity++ {
		for n := 2; n <= racyLen; n++ {
			racyPlans(n, func(p string) { pump("racy", capacity, p) })
		}
	}
	runtime.GOMAXPROCS(prev)
	for k := 0; k < nRandom; k++ {
		capacity := rng.Intn(4)
		plan := randomPlan(rng) // drawn even when skipped: the stream of random numbers must not depend on VERIF_FROM
		pump("random", capacity, plan)
	}
	for k := 0; k < nBacklog; k++ {
		capacity := rng.Intn(4)
		plan := backlogPlan(rng)
		pump("backlog", capacity, plan)
	}
	nBurst := 4
	if thorough {
		nBurst = 30
	}
	for k := 0; k < nBurst; k++ {
		capacity := rng.Intn(4)
		plan := burstPlan(rng)
		pump("burst", capacity, plan)
	}
	if !pipe.VerifQueueAvailable {
		nQueue = 0 // the unexported queue functions are not what the wrappers expect: pump layer only
	}
	for k := 0; k < nQueue; k++ {
		i := idx
		idx++
		ops := runQueue(rng, qOps) // cannot kill the process: the only risky call recovers
		if i < from {
			continue
		}
		emitLine(&Line{Idx: &i, Layer: "queue", Ops: ops})
	}
	fmt.Fprintf(os.Stderr, "c08 harness: %d cases\n", idx)
}
