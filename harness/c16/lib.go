// Harness for C16 (static part).  tools/runner/props/c16.py GENERATES progs.go next to this file:
// one Go function per combinator program (duct programs are generic code, so every program is Go
// source of its own), listed in `programs`.  For every program the AST is built once by the real
// combinators and then visited (a) by a recording visitor and (b) by a visitor that returns an error
// at callback j, for every j.  One JSON case per program on stdout.
package main

import (
	"bufio"
	"encoding/json"
	"errors"
	"fmt"
	"os"

	"github.com/fogfish/golem/duct"
)

// one callback as seen by the visitor
type cbrec struct {
	K    int    `json:"k"` // 0 EnterMorphism 1 LeaveMorphism 2 EnterSeq 3 LeaveSeq 4 EnterMap 5 LeaveMap 6 EnterFrom 7 LeaveFrom 8 EnterYield 9 LeaveYield
	D    int    `json:"d"`
	N1   string `json:"n1"`
	N2   string `json:"n2"`
	ID   int64  `json:"id"`
	NC   int    `json:"nc"`
	Root bool   `json:"root"`
	Def  bool   `json:"def"`
}

func (c cbrec) code() int64 {
	ident := c.ID
	if c.NC >= 0 {
		ident = int64(2 * c.NC)
		if c.Root {
			ident++
		}
	}
	return int64(c.K) + 16*int64(c.D) + 512*ident
}

func payload(x any) int64 {
	if v, ok := x.(int64); ok {
		return v
	}
	return -1000
}

type recorder struct {
	failAt int
	err    error
	trace  []cbrec
}

func (r *recorder) on(k, depth int, c cbrec) error {
	c.K, c.D = k, depth
	r.trace = append(r.trace, c)
	if len(r.trace)-1 == r.failAt {
		return r.err
	}
	return nil
}

func seqrec(n duct.AstSeq) cbrec {
	return cbrec{NC: len(n.Seq), Root: n.Root, Def: n.Deferred}
}
func maprec(n duct.AstMap) cbrec { return cbrec{N1: n.TypeA, N2: n.TypeB, ID: payload(n.F), NC: -1} }
func fromrec(n duct.AstFrom) cbrec {
	return cbrec{N1: n.Type, ID: payload(n.Source), NC: -1}
}
func yieldrec(n duct.AstYield) cbrec {
	return cbrec{N1: n.Type, ID: payload(n.Target), NC: -1}
}

func (r *recorder) OnEnterMorphism(d int, n duct.AstSeq) error { return r.on(0, d, seqrec(n)) }
func (r *recorder) OnLeaveMorphism(d int, n duct.AstSeq) error { return r.on(1, d, seqrec(n)) }
func (r *recorder) OnEnterSeq(d int, n duct.AstSeq) error      { return r.on(2, d, seqrec(n)) }
func (r *recorder) OnLeaveSeq(d int, n duct.AstSeq) error      { return r.on(3, d, seqrec(n)) }
func (r *recorder) OnEnterMap(d int, n duct.AstMap) error      { return r.on(4, d, maprec(n)) }
func (r *recorder) OnLeaveMap(d int, n duct.AstMap) error      { return r.on(5, d, maprec(n)) }
func (r *recorder) OnEnterFrom(d int, n duct.AstFrom) error    { return r.on(6, d, fromrec(n)) }
func (r *recorder) OnLeaveFrom(d int, n duct.AstFrom) error    { return r.on(7, d, fromrec(n)) }
func (r *recorder) OnEnterYield(d int, n duct.AstYield) error  { return r.on(8, d, yieldrec(n)) }
func (r *recorder) OnLeaveYield(d int, n duct.AstYield) error  { return r.on(9, d, yieldrec(n)) }

var _ duct.Visitor = (*recorder)(nil)

type fvisit struct {
	Codes []int64 `json:"codes"`
	Err   bool    `json:"err"`
	Same  bool    `json:"same"`
}

type result struct {
	Idx      int      `json:"idx"`
	Trace    []cbrec  `json:"trace"`
	CleanErr bool     `json:"clean_err"`
	Fails    []fvisit `json:"fails"`
}

// a program: builds the morphism with the real combinators, hands back its Apply
type program func() func(duct.Visitor) error

func main() {
	w := bufio.NewWriterSize(os.Stdout, 1<<20)
	defer w.Flush()
	for idx, p := range programs {
		apply := p() // built ONCE; visits do not change it
		rec := &recorder{failAt: -1}
		res := result{Idx: idx}
		res.CleanErr = apply(rec) != nil
		res.Trace = rec.trace
		if res.Trace == nil {
			res.Trace = []cbrec{}
		}
		res.Fails = []fvisit{}
		for j := 0; j < len(rec.trace); j++ {
			boom := fmt.Errorf("visitor fails at callback %d", j)
			fr := &recorder{failAt: j, err: boom}
			err := apply(fr)
			fv := fvisit{Codes: []int64{}, Err: err != nil, Same: err != nil && errors.Is(err, boom)}
			for _, c := range fr.trace {
				fv.Codes = append(fv.Codes, c.code())
			}
			res.Fails = append(res.Fails, fv)
		}
		b, err := json.Marshal(res)
		if err != nil {
			fmt.Fprintln(os.Stderr, err)
			os.Exit(2)
		}
		w.Write(b)
		w.WriteByte('\n')
	}
}
